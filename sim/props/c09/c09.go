// Package c09: per-request state is private under concurrency; stage results
// are reused.  K2: N request goroutines against ONE middleware.Context under
// the race-visible exclusive scheduler (preemption at instrumented statement
// boundaries and at every collaborator call, -race build), plus a
// tape-generated accessor program per request.
package c09

import (
	"context"
	"encoding/json"
	"fmt"
	"io"
	"net/http"
	"net/http/httptest"
	"sort"
	"strings"
	"testing"

	"github.com/go-openapi/errors"
	"github.com/go-openapi/loads"
	"github.com/go-openapi/runtime"
	"github.com/go-openapi/runtime/middleware"

	"verif.local/sim/kernel"
	"verif.local/sim/simapi"
)

type prop struct{}

func init() { kernel.Register(prop{}) }

func (prop) ID() string     { return "C09" }
func (prop) Engine() string { return "K2" }
func (prop) Level() string  { return "exploration" }

func (prop) Budget(tier string) int {
	if tier == "thorough" {
		return 400000
	}
	return 16000
}

func (prop) Sweep(string) []kernel.Scenario { return nil }

func (prop) Describe() kernel.Description {
	return kernel.Description{
		Rule: "Dimensions added with the seed waves: a pool of multi-range Accept headers with a per-pass nonce parameter (header-keyed process-wide state is cold in every pass) and one header text shared by all requests; requests whose context is already cancelled; an operation without any parameter whose alternatives carry different scopes, seen by a scheme-aware authorizer; BindAndValidate with a route freshly obtained from LookupRoute; cold-start mode. " +
			"one run = N=2..6 requests (mixed operations incl. two sharing a template prefix, an OR and an AND security requirement, an optional-auth operation, a body with two " +
			"consumers, two producers; several requests on the same route on purpose; every request carries a unique token in every position: path values, query, credentials, body) " +
			"served by ONE middleware.Context either through the full APIHandler or through a tape-generated accessor program (≤10 steps with repetition over RouteInfo / ContentType / " +
			"ResponseFormat / Authorize / BindAndValidate / ResetAuth, threading the returned request like generated servers). The K2 scheduler runs exactly one request at a time, " +
			"preempts at instrumented statement boundaries (PCT-style change points from the tape) and at every authenticator / authorizer / consumer / handler call, and hands over by raw " +
			"pipe system calls the race detector cannot see. Oracles: (1) each request's observation record equals its solo execution on an identically built handler, and its values are " +
			"its own tokens; (2) a reference memo model over the accessor program (same request value and same result on a repeated accessor, authenticators not consulted again after a " +
			"principal was obtained until ResetAuth, consumer and body stream untouched after the first BindAndValidate, principal and scopes gone after ResetAuth); (3) no race report " +
			"with both stacks inside go-openapi/runtime. distinct = distinct schedule signature × program; non-trivial = ≥1 preemption happened.",
		Real: []string{"middleware.Context: APIHandler, RouteInfo, ContentType, ResponseFormat, Authorize, BindAndValidate, ResetAuth, Respond", "default router + denco", "untyped request binder / validation",
			"RouteAuthenticator(s)", "routableUntypedAPI (handler table under its mutex)"},
		Stubs: []string{"authenticators, authorizer, consumers, producers, operation handlers (scripted, identity-tagged, per-request slots, no synchronisation of their own)", "request bodies (counting readers)", "response recorders"},
		Assumptions: []string{
			"requests are independent by specification, so no interleaving may change any per-request observation",
			"a race whose both accesses the detector has already evicted, or that is masked by incidental synchronisation inside the standard library, can be missed; no false report can arise",
			"K2 has no fake clock: workloads contain no stalls or timeouts",
		},
	}
}

// ---------------------------------------------------------------------------

type opInfo struct {
	id       string
	method   string
	tmpl     string // with {id} / {sub}
	hasBody  bool
	security string
}

var ops = []opInfo{
	{"getItem", "GET", "/items/{id}", false, "K1-or-K2"},
	{"getSub", "GET", "/items/{id}/sub/{sub}", false, "K1-and-K2"},
	{"postThing", "POST", "/things/{id}", true, "optional-K1"},
	{"putThing", "PUT", "/things/{id}", true, "K2"},
	{"open", "GET", "/open/{id}", false, "none"},
	{"bulk", "POST", "/bulk", true, "none"},                    // parameter-less route, body admitted through a wildcard entry
	{"status", "GET", "/status", false, "K1-read-or-K2-admin"}, // declares no parameter at all; its alternatives carry different scopes
}

func buildDoc() (*loads.Document, error) {
	hdr := simapi.Param{Name: "X-Req", In: "header", Type: "string"}
	sec := func(l ...map[string][]string) *[]map[string][]string { return &l }
	api := &simapi.API{BasePath: "/api", Consumes: []string{"application/json"}, Produces: []string{"application/json"},
		SecDefs: map[string]map[string]any{"K1": simapi.APIKeyDef("X-Key-1"), "K2": simapi.APIKeyDef("X-Key-2")},
		Ops: []simapi.Op{
			{Method: "GET", Path: "/items/{id}", ID: "getItem", Produces: []string{"application/json", "text/plain"},
				Params:   []simapi.Param{{Name: "id", In: "path", Type: "string"}, {Name: "q", In: "query", Type: "string"}, hdr},
				Security: sec(map[string][]string{"K1": {"read"}}, map[string][]string{"K2": nil})},
			{Method: "GET", Path: "/items/{id}/sub/{sub}", ID: "getSub",
				Params:   []simapi.Param{{Name: "id", In: "path", Type: "string"}, {Name: "sub", In: "path", Type: "string"}, {Name: "q", In: "query", Type: "string"}, hdr},
				Security: sec(map[string][]string{"K1": {"write"}, "K2": nil})},
			{Method: "POST", Path: "/things/{id}", ID: "postThing", Consumes: []string{"application/json", "application/vnd.sim+json"}, Produces: []string{"application/json", "text/plain"},
				Params:   []simapi.Param{{Name: "id", In: "path", Type: "string"}, {Name: "q", In: "query", Type: "string"}, hdr, {Name: "payload", In: "body", Required: true}},
				Security: sec(map[string][]string{}, map[string][]string{"K1": {"read"}})},
			{Method: "PUT", Path: "/things/{id}", ID: "putThing", Consumes: []string{"application/json"},
				Params:   []simapi.Param{{Name: "id", In: "path", Type: "string"}, {Name: "q", In: "query", Type: "string"}, hdr, {Name: "payload", In: "body", Required: true}},
				Security: sec(map[string][]string{"K2": {"admin"}})},
			{Method: "GET", Path: "/open/{id}", ID: "open",
				Params: []simapi.Param{{Name: "id", In: "path", Type: "string"}, {Name: "q", In: "query", Type: "string"}, hdr}},
			{Method: "POST", Path: "/bulk", ID: "bulk", Consumes: []string{"application/*"}, Produces: []string{"application/json", "text/plain; charset=utf-8"},
				Params: []simapi.Param{{Name: "q", In: "query", Type: "string"}, hdr, {Name: "payload", In: "body", Required: true}}},
			{Method: "GET", Path: "/status", ID: "status",
				Security: sec(map[string][]string{"K1": {"read"}}, map[string][]string{"K2": {"admin"}})},
		}}
	return api.Doc()
}

var (
	cachedDoc    *loads.Document
	cachedDocErr error
)

type reqPlan struct {
	idx     int
	op      int
	id, sub string
	q       string
	tok     string
	key1    string // "", "good", "bad"
	key2    string
	deny    bool
	ctxDone bool // the client has gone away: the request's context is already cancelled when it is served
	ctype   string
	accept  string
	program []int // accessor program (flow B)
}

const (
	sRI = iota
	sCT
	sRF
	sAU
	sBV
	sRA
	sBVL // BindAndValidate with a route value freshly obtained from Context.LookupRoute (not the one RouteInfo cached)
	nSteps
)

var stepNames = []string{"RouteInfo", "ContentType", "ResponseFormat", "Authorize", "BindAndValidate", "ResetAuth", "BindAndValidate"}

type countingBody struct {
	data   []byte
	pos    int
	reads  int
	closed int
}

func (b *countingBody) Read(p []byte) (int, error) {
	b.reads++
	if b.pos >= len(b.data) {
		return 0, io.EOF
	}
	n := copy(p, b.data[b.pos:])
	b.pos += n
	return n, nil
}

func (b *countingBody) Close() error { b.closed++; return nil }

type server struct {
	ctx     *middleware.Context
	handler http.Handler
	world   *simapi.World
}

// coldOps are the operations whose route entries carry no dependency-internal ordering (single produces/consumes
// entry, single-scheme alternatives): for them the two builds agree without normalisation, so the concurrent
// handler can be left completely cold (no route has ever been looked up) when the requests arrive.
var coldOps = []int{3, 4}

func buildServer(doc *loads.Document, n int, point func(), plans []reqPlan, salt uint64, normalise bool) *server {
	world := simapi.NewWorld(n)
	u := simapi.NewUntyped(doc)
	u.RegisterConsumer("application/json", &simapi.Consumer{W: world, Tag: "json", Inner: runtime.JSONConsumer(), OnCall: point})
	u.RegisterConsumer("application/vnd.sim+json", &simapi.Consumer{W: world, Tag: "vnd", Inner: runtime.JSONConsumer(), OnCall: point})
	u.RegisterProducer("application/json", &simapi.Producer{W: world, Tag: "json", Inner: runtime.JSONProducer()})
	u.RegisterProducer("text/plain", &simapi.Producer{W: world, Tag: "text", Inner: nil})
	mkAuth := func(scheme, header string) *simapi.Auth {
		return &simapi.Auth{W: world, Scheme: scheme, OnCall: point, Outcome: func(i int, r *http.Request, _ []string) simapi.AuthOutcome {
			v := r.Header.Get(header)
			switch {
			case v == "":
				return simapi.AuthOutcome{}
			case strings.HasPrefix(v, "good-"):
				return simapi.AuthOutcome{Applies: true, Principal: "P-" + scheme + "-" + strings.TrimPrefix(v, "good-")}
			case strings.HasPrefix(v, "zero-"):
				// accepted, and the principal is the zero value of its type (an empty account name): non-nil all the same
				return simapi.AuthOutcome{Applies: true, Principal: ""}
			}
			return simapi.AuthOutcome{Applies: true, Err: errors.Unauthenticated(scheme)}
		}}
	}
	u.RegisterAuth("K1", mkAuth("K1", "X-Key-1"))
	u.RegisterAuth("K2", mkAuth("K2", "X-Key-2"))
	u.RegisterAuthorizer(&simapi.Authorizer{W: world, OnCall: point, Decide: func(i int, r *http.Request, _ any) error {
		// a scheme-aware authorizer looks at which alternative admitted the request
		if mr := middleware.MatchedRouteFrom(r); mr != nil && mr.Authenticator != nil && i >= 0 && i < len(world.Slots) {
			sch := append([]string(nil), mr.Authenticator.Schemes...)
			sort.Strings(sch)
			world.Slots[i].AuthzSaw = fmt.Sprintf("admitted-by=%v scopes=%v", sch, mr.Authenticator.AllScopes())
		}
		if r.Header.Get("X-Deny") != "" {
			return errors.New(403, "denied %s", r.Header.Get("X-Deny"))
		}
		return nil
	}})
	for _, o := range ops {
		o := o
		u.RegisterOperation(o.method, o.tmpl, &simapi.Handler{W: world, Op: o.id, OnCall: point, Result: func(i int, bound map[string]any) (any, error) {
			return map[string]any{"req": i, "op": o.id, "id": fmt.Sprint(bound["id"]), "q": fmt.Sprint(bound["q"])}, nil // (id is <nil> for the parameter-less route)
		}})
	}
	ctx := middleware.NewContext(doc, u, nil)
	h := ctx.APIHandler(nil)
	if auditMode {
		// an audit / metrics middleware in front of the operation: it binds the request, hands the returned request value down,
		// and asks for the binding outcome again once the operation has returned — it must be told the same thing
		h = ctx.APIHandler(func(next http.Handler) http.Handler {
			return http.HandlerFunc(func(w http.ResponseWriter, r *http.Request) {
				route, r1, ok := ctx.RouteInfo(r)
				if !ok {
					next.ServeHTTP(w, r)
					return
				}
				b1, r2, e1 := ctx.BindAndValidate(r1, route)
				first := boundDigest(b1, e1)
				next.ServeHTTP(w, r2)
				b2, _, e2 := ctx.BindAndValidate(r2, route)
				if again := boundDigest(b2, e2); again != first {
					if i := simapi.ReqIndex(r); i >= 0 && i < len(world.Slots) {
						world.Slots[i].Audit = fmt.Sprintf("bound before the operation: %s; asked again after it: %s", first, again)
					}
				}
			})
		})
	}
	var probes []*http.Request
	for _, o := range ops {
		probes = append(probes, httptest.NewRequest(o.method, "/api"+strings.NewReplacer("{id}", "x", "{sub}", "y").Replace(o.tmpl), nil))
	}
	if normalise {
		simapi.NormaliseRoutes(ctx, probes, kernel.OrderFunc(salt))
	}
	return &server{ctx: ctx, handler: h, world: world}
}

func (p *reqPlan) build() (*http.Request, *countingBody) {
	o := ops[p.op]
	path := "/api" + strings.NewReplacer("{id}", p.id, "{sub}", p.sub).Replace(o.tmpl) + "?q=" + p.q
	var body *countingBody
	var rd io.Reader
	if o.hasBody {
		body = &countingBody{data: []byte(fmt.Sprintf(`{"req":%d,"tok":%q}`, p.idx, p.tok))}
		rd = body
	}
	r := httptest.NewRequest(o.method, path, rd)
	if body != nil {
		r.Body = body
		r.ContentLength = int64(len(body.data))
		if p.ctype != "" {
			r.Header.Set("Content-Type", p.ctype)
		}
	}
	if p.accept != "" {
		// the accept-extension parameter makes the header text new to the process in every pass of every run (a
		// header-keyed memo would otherwise be warmed by the solo pass or by an earlier run); it carries no meaning
		r.Header.Set("Accept", strings.ReplaceAll(p.accept, "%v", passNonce))
	}
	r.Header.Set("X-Req", fmt.Sprint(p.idx))
	if p.key1 != "" {
		r.Header.Set("X-Key-1", p.key1+"-"+p.tok)
	}
	if p.key2 != "" {
		r.Header.Set("X-Key-2", p.key2+"-"+p.tok)
	}
	if p.deny {
		r.Header.Set("X-Deny", p.tok)
	}
	if p.ctxDone {
		cctx, cancel := context.WithCancel(r.Context())
		cancel()
		r = r.WithContext(cctx)
	}
	return r, body
}

// auditMode: this run's handlers (solo and concurrent alike) have the audit middleware in front.
var auditMode bool

// acceptPool: single ranges, and several ranges whose textual order is not their preference order.
var acceptPool = []string{"application/json", "text/plain", "*/*", "", "image/png", "text/plain;q=0.5, application/json",
	"image/png;v=%v;q=0.1, text/plain;q=0.4, application/json;q=0.9", "*/*;v=%v;q=0.1, application/json", "text/plain;v=%v;q=0.2, application/json;q=0.3"}

// passNonce is written before a pass starts and only read by the tasks.
var passNonce string

// orderSensitive: the operation's alternative ANDs two schemes; which one is asked first decides who is consulted at
// all (the first "not applicable" or rejection ends the alternative), which error is reported and whose principal an
// all-accepting alternative yields.
func orderSensitive(p *reqPlan) bool {
	return ops[p.op].id == "getSub"
}

// record is everything observed for one request; comparable with ==.
type record struct {
	status   int
	ctHeader string
	respBody string
	steps    string // accessor flow: one line per step
	slot     string // what the collaborators saw
	memo     string // memo-model violations (must be empty)
	own      string // own-token violations (must be empty)
	panicMsg string
}

func slotDigest(s *simapi.Obs) string {
	var keys []string
	for k, v := range s.Bound {
		keys = append(keys, fmt.Sprintf("%s=%v", k, v))
	}
	sort.Strings(keys)
	return fmt.Sprintf("auth=%v authz=%d(%s) princ=%v consumers=%v producers=%v handler=%d/%s bound=%v", s.AuthCalls, s.AuthzCalls, s.AuthzSaw, s.AuthzPrinc, s.Consumers, s.Producers, s.HandlerRan, s.HandlerOp, keys)
}

// serveFull: flow A.
func serveFull(srv *server, p *reqPlan) record {
	var rec record
	r, _ := p.build()
	w := httptest.NewRecorder()
	rec.panicMsg = kernel.Catch(func() { srv.handler.ServeHTTP(w, r) })
	rec.status = w.Code
	rec.ctHeader = w.Header().Get("Content-Type")
	rec.respBody = w.Body.String()
	s := srv.world.Slots[p.idx]
	rec.slot = slotDigest(s)
	rec.own = ownCheck(p, s, rec.status, rec.respBody)
	return rec
}

func ownCheck(p *reqPlan, s *simapi.Obs, status int, respBody string) string {
	var bad []string
	if s.HandlerRan > 0 {
		if s.HandlerOp != ops[p.op].id {
			bad = append(bad, fmt.Sprintf("handler of %s ran for a %s request", s.HandlerOp, ops[p.op].id))
		}
		if got := fmt.Sprint(s.Bound["id"]); got != p.id && strings.Contains(ops[p.op].tmpl, "{id}") {
			bad = append(bad, fmt.Sprintf("path value id=%q, own is %q", got, p.id))
		}
		if got := fmt.Sprint(s.Bound["q"]); got != p.q && ops[p.op].id != "status" {
			bad = append(bad, fmt.Sprintf("query q=%q, own is %q", got, p.q))
		}
		if ops[p.op].hasBody {
			b, _ := json.Marshal(s.Bound["payload"])
			if !strings.Contains(string(b), `"tok":"`+p.tok+`"`) {
				bad = append(bad, fmt.Sprintf("body %s does not carry own token %s", b, p.tok))
			}
		}
	}
	if s.AuthzPrincSet && s.AuthzPrinc != nil {
		if !strings.HasSuffix(fmt.Sprint(s.AuthzPrinc), "-"+p.tok) && s.AuthzPrinc != "" {
			bad = append(bad, fmt.Sprintf("principal %v is not derived from own credentials (%s)", s.AuthzPrinc, p.tok))
		}
	}
	if s.Audit != "" {
		bad = append(bad, "audit middleware: "+s.Audit)
	}
	for _, c := range s.Consumers {
		want := "json"
		if strings.HasPrefix(strings.ToLower(p.ctype), "application/vnd.sim+json") {
			want = "vnd"
		}
		if c != want {
			bad = append(bad, fmt.Sprintf("consumer %s decoded a %q body", c, p.ctype))
		}
	}
	// (the handler of the parameter-less operation is handed nothing it could tell requests apart by)
	if ops[p.op].id != "status" && status >= 200 && status < 300 && respBody != "" && !strings.Contains(respBody, fmt.Sprintf("req:%d", p.idx)) && !strings.Contains(respBody, fmt.Sprintf(`"req":%d`, p.idx)) {
		bad = append(bad, fmt.Sprintf("response %q is not the one of request %d", respBody, p.idx))
	}
	return strings.Join(bad, "; ")
}

// serveProgram: flow B — the accessor program with the reference memo model.
func serveProgram(srv *server, p *reqPlan) record {
	var rec record
	ctx := srv.ctx
	s := srv.world.Slots[p.idx]
	r, body := p.build()
	var (
		route                                            *middleware.MatchedRoute
		haveRoute, haveCT, haveFormat, havePrinc, haveBV bool
		lastCT, lastFormat                               string
		lastPrinc                                        any
		lastBound                                        string
		steps, memo                                      []string
	)
	note := func(f string, a ...any) { memo = append(memo, fmt.Sprintf(f, a...)) }
	bodyReads := func() int {
		if body == nil {
			return 0
		}
		return body.reads
	}
	rec.panicMsg = kernel.Catch(func() {
		for i, st := range p.program {
			switch st {
			case sRI:
				rt2, r2, ok := ctx.RouteInfo(r)
				if !ok {
					steps = append(steps, "RouteInfo: no route")
					return
				}
				if haveRoute {
					if r2 != r {
						note("step %d RouteInfo: matched route already known, yet a new request value was returned", i)
					}
					if rt2 != route {
						note("step %d RouteInfo: a different *MatchedRoute was returned for the same request chain (route looked up again)", i)
					}
				} else if r2 == r || r2 == nil {
					note("step %d RouteInfo: first call did not return a new request value", i)
				}
				route, haveRoute = rt2, true
				var ps []string
				for _, prm := range rt2.Params {
					ps = append(ps, prm.Name+"="+prm.Value)
				}
				steps = append(steps, fmt.Sprintf("RouteInfo: %s %v", rt2.PathPattern, ps))
				r = r2
			case sCT:
				mt, cs, r2, err := ctx.ContentType(r)
				if err != nil {
					steps = append(steps, "ContentType: error")
					continue
				}
				if haveCT {
					if r2 != r {
						note("step %d ContentType: already parsed, yet a new request value was returned", i)
					}
					if mt+";"+cs != lastCT {
						note("step %d ContentType: %s, first answer was %s", i, mt+";"+cs, lastCT)
					}
				} else if r2 == r {
					note("step %d ContentType: first call did not return a new request value", i)
				}
				haveCT, lastCT = true, mt+";"+cs
				steps = append(steps, "ContentType: "+lastCT)
				r = r2
			case sRF:
				if !haveRoute {
					continue
				}
				offers := route.Produces
				if haveFormat {
					// a later asker with its own idea of the offers: a negotiation that succeeded is not redone
					offers = make([]string, len(route.Produces))
					for j, o := range route.Produces {
						offers[len(offers)-1-j] = o
					}
				}
				format, r2 := ctx.ResponseFormat(r, offers)
				if haveFormat {
					if r2 != r {
						note("step %d ResponseFormat: already negotiated, yet a new request value was returned", i)
					}
					if format != lastFormat {
						note("step %d ResponseFormat: %q, first answer was %q", i, format, lastFormat)
					}
				}
				if format != "" {
					haveFormat, lastFormat = true, format
				}
				steps = append(steps, "ResponseFormat: "+format)
				r = r2
			case sAU:
				if !haveRoute {
					continue
				}
				before := len(s.AuthCalls)
				princ, r2, err := ctx.Authorize(r, route)
				after := len(s.AuthCalls)
				if havePrinc {
					if after != before {
						note("step %d Authorize: a principal was already obtained, yet authenticators %v were consulted again", i, s.AuthCalls[before:])
					}
					if r2 != r {
						note("step %d Authorize: already authorised, yet a new request value was returned", i)
					}
					if princ != lastPrinc {
						note("step %d Authorize: principal %v, first answer was %v", i, princ, lastPrinc)
					}
				}
				code := 0
				if err != nil {
					code = 500
					if e, ok := err.(errors.Error); ok {
						code = int(e.Code())
					}
				}
				if r2 != nil {
					r = r2
				}
				if err == nil && princ != nil {
					havePrinc, lastPrinc = true, princ
					if got := middleware.SecurityPrincipalFrom(r); got != princ {
						note("step %d Authorize: request context carries principal %v, returned %v", i, got, princ)
					}
				}
				var adm []string
				if route.Authenticator != nil {
					adm = append(adm, route.Authenticator.Schemes...)
					sort.Strings(adm)
				}
				sc := append([]string(nil), middleware.SecurityScopesFrom(r)...)
				sort.Strings(sc)
				steps = append(steps, fmt.Sprintf("Authorize: principal=%v scopes=%v admitting=%v err=%d", princ, sc, adm, code))
			case sBV, sBVL:
				if !haveRoute {
					continue
				}
				useRoute := route
				if st == sBVL {
					// another asker down the line looked the route up itself: same route, another value
					if lr, ok := ctx.LookupRoute(r); ok {
						useRoute = lr
					}
				}
				beforeC, beforeR := len(s.Consumers), bodyReads()
				bound, r2, err := ctx.BindAndValidate(r, useRoute)
				digest := boundDigest(bound, err)
				if haveBV {
					if len(s.Consumers) != beforeC {
						note("step %d BindAndValidate: the outcome of binding was known, yet consumer %v ran again", i, s.Consumers[beforeC:])
					}
					if bodyReads() != beforeR {
						note("step %d BindAndValidate: the outcome of binding was known, yet the body stream was read again (%d more reads)", i, bodyReads()-beforeR)
					}
					if r2 != r {
						note("step %d BindAndValidate: already bound, yet a new request value was returned", i)
					}
					if digest != lastBound {
						note("step %d BindAndValidate: %s, first answer was %s", i, digest, lastBound)
					}
				} else if r2 == r {
					note("step %d BindAndValidate: first call did not return a new request value", i)
				}
				haveBV, lastBound = true, digest
				steps = append(steps, "BindAndValidate: "+digest)
				r = r2
				if m, ok := bound.(map[string]any); ok && err == nil {
					s.Bound = m
					s.HandlerRan, s.HandlerOp = 1, route.Operation.ID
				}
			case sRA:
				r = ctx.ResetAuth(r)
				havePrinc, lastPrinc = false, nil
				if got := middleware.SecurityPrincipalFrom(r); got != nil {
					note("step %d ResetAuth: principal %v still in the request context", i, got)
				}
				if got := middleware.SecurityScopesFrom(r); got != nil {
					note("step %d ResetAuth: scopes %v still in the request context", i, got)
				}
				steps = append(steps, "ResetAuth")
			}
		}
	})
	if len(s.Consumers) > 1 {
		note("the body was consumed %d times (%v)", len(s.Consumers), s.Consumers)
	}
	rec.steps = strings.Join(steps, " | ")
	rec.memo = strings.Join(memo, "; ")
	rec.slot = slotDigest(s)
	rec.own = ownCheck(p, s, 0, "")
	return rec
}

func boundDigest(bound any, err error) string {
	var keys []string
	if m, ok := bound.(map[string]any); ok {
		for k, v := range m {
			b, _ := json.Marshal(v)
			keys = append(keys, k+"="+string(b))
		}
	}
	sort.Strings(keys)
	var codes []int
	var walk func(e error)
	walk = func(e error) {
		switch v := e.(type) {
		case nil:
		case *errors.CompositeError:
			for _, x := range v.Errors {
				walk(x)
			}
		case errors.Error:
			codes = append(codes, int(v.Code()))
		default:
			codes = append(codes, -1)
		}
	}
	walk(err)
	sort.Ints(codes)
	return fmt.Sprintf("%v errs=%v", keys, codes)
}

var raceLog *kernel.RaceLog
var raceLogInit bool

func (prop) Run(t *testing.T, tape *kernel.Tape, sc kernel.Scenario) *kernel.Result {
	env := kernel.NewEnv(tape)
	res := &kernel.Result{}
	if !raceLogInit {
		raceLogInit = true
		raceLog = kernel.OpenRaceLog()
	}
	if cachedDoc == nil && cachedDocErr == nil {
		cachedDoc, cachedDocErr = buildDoc()
	}
	if cachedDocErr != nil {
		res.Infra = "description does not load: " + cachedDocErr.Error()
		return res
	}
	salt := uint64(tape.Choose(1<<16, "map-order-salt"))
	kernel.InstallOrder(salt)
	defer kernel.UninstallOrder()

	n := 2 + tape.Choose(5, "nreq")
	cold := tape.Bool(5, "cold-start")
	flowB := tape.Bool(2, "accessor-flow")
	plans := make([]reqPlan, n)
	sameRoute := tape.Choose(len(ops), "popular-op")
	auditMode = !flowB && tape.Bool(3, "audit-middleware-in-front")
	sharedAccept := tape.Bool(2, "same-accept-header-on-all-requests")
	nonce := tape.Choose(1000000, "accept-nonce")
	for i := range plans {
		p := &plans[i]
		p.idx = i
		p.op = tape.Choose(len(ops), "op")
		if tape.Bool(2, "same-route") {
			p.op = sameRoute
		}
		if cold {
			p.op = coldOps[tape.Choose(len(coldOps), "cold-op")]
		}
		p.tok = fmt.Sprintf("t%dx%d", i, tape.Choose(1000, "tok"))
		p.id = "id-" + p.tok
		p.sub = "sub-" + p.tok
		p.q = "q-" + p.tok
		p.key1 = []string{"good", "", "bad", "good", "zero"}[tape.Choose(5, "key1")]
		p.key2 = []string{"good", "", "bad", "good", "zero"}[tape.Choose(5, "key2")]
		p.deny = tape.Bool(8, "deny")
		p.ctxDone = tape.Bool(6, "request-context-already-done")
		p.ctype = []string{"application/json", "application/vnd.sim+json", "application/json; charset=utf-8", "text/plain", "Application/VND.sim+JSON"}[tape.Choose(5, "ctype")]
		p.accept = acceptPool[tape.Choose(len(acceptPool), "accept")]
		if i > 0 && sharedAccept {
			p.accept = plans[0].accept // one client program sending all requests: the same header text on every one
		}
		if flowB {
			p.program = []int{sRI}
			ln := 2 + tape.Choose(8, "prog-len")
			for j := 0; j < ln; j++ {
				p.program = append(p.program, tape.Weighted("step", 1, 2, 2, 4, 4, 1, 2))
			}
		}
	}
	serve := serveFull
	if flowB {
		serve = serveProgram
	}
	// ---- solo pass on its own identically built server
	passNonce = fmt.Sprintf("s%d", nonce)
	soloSrv := buildServer(cachedDoc, n, nil, plans, salt, true)
	solo := make([]record, n)
	est := 0
	for i := range plans {
		i := i
		est += kernel.CountYields(func() { solo[i] = serve(soloSrv, &plans[i]) })
	}
	raceLog.Drain()
	// ---- concurrent pass
	k := kernel.NewK2(tape)
	passNonce = fmt.Sprintf("c%d", nonce)
	concSrv := buildServer(cachedDoc, n, k.Point, plans, salt, !cold)
	if cold {
		env.Fault("cold-start")
	}
	conc := make([]record, n)
	for i := range plans {
		i := i
		k.Add(fmt.Sprintf("req%d", i), func() { conc[i] = serve(concSrv, &plans[i]) })
	}
	k.Run(est, 4)
	env.Log("k2", "%s", k.TraceString())
	var sb strings.Builder
	fmt.Fprintf(&sb, "%d requests flowB=%v cold=%v salt=%d:", n, flowB, cold, salt)
	for _, p := range plans {
		fmt.Fprintf(&sb, " [%s %s k1=%s k2=%s ct=%s acc=%s prog=%v]", ops[p.op].id, p.tok, p.key1, p.key2, p.ctype, p.accept, progString(p.program))
	}
	res.Summary = sb.String() + " " + k.TraceString()
	flow := "full-handler"
	if flowB {
		flow = "accessor-program"
	}
	var pnames []string
	for name, pm := range k.Panics() {
		pnames = append(pnames, name+": "+pm)
	}
	sort.Strings(pnames)
	for _, pm := range pnames {
		env.Violate("C09/panic", flow, "task panicked: %s", pm)
	}
	for i := range plans {
		op := ops[plans[i].op].id
		if solo[i].panicMsg != "" || conc[i].panicMsg != "" {
			env.Violate("C09/panic", flow+":"+op, "request %d panicked: solo=%q concurrent=%q", i, solo[i].panicMsg, conc[i].panicMsg)
			continue
		}
		if solo[i].memo != "" {
			env.Violate("C09/stage-result-not-reused", memoClass(solo[i].memo), "request %d (%s) alone, program %s: %s", i, op, progString(plans[i].program), solo[i].memo)
		} else if conc[i].memo != "" {
			env.Violate("C09/stage-result-not-reused", memoClass(conc[i].memo), "request %d (%s) under the concurrent schedule, program %s: %s", i, op, progString(plans[i].program), conc[i].memo)
		}
		if solo[i].own != "" {
			env.Violate("C09/foreign-state", "solo:"+ownClass(solo[i].own), "request %d (%s) alone: %s", i, op, solo[i].own)
		} else if conc[i].own != "" {
			env.Violate("C09/foreign-state", ownClass(conc[i].own), "request %d (%s) under the concurrent schedule: %s", i, op, conc[i].own)
		}
		// The two passes run on two separately built handlers. Where the answer to a request legitimately depends on the
		// order in which the schemes of one alternative are consulted (which the description does not fix and a build may
		// choose privately), "alone" and "concurrent" need not agree: such requests are left to the other oracles.
		if orderSensitive(&plans[i]) {
			env.Probe("solo-comparison-skipped:consultation-order-matters")
			continue
		}
		if conc[i] != solo[i] {
			env.Violate("C09/differs-from-solo", flow+":"+diffField(solo[i], conc[i]), "request %d (%s): under the concurrent schedule %+v, alone %+v", i, op, conc[i], solo[i])
			break
		}
	}
	seenPair := map[string]bool{}
	for _, rep := range raceLog.Drain() {
		if ok, pair := rep.Admitted("github.com/go-openapi/runtime/"); ok {
			if seenPair[pair] {
				continue
			}
			seenPair[pair] = true
			env.Violate("C09/data-race", pair, "race detector report under a serialised schedule (only the program's own synchronisation is visible):\n%s", trim(rep.Text, 2500))
			res.NoMinimise = true
		} else {
			env.Probe("race-report-outside-code-under-test")
		}
	}
	if k.Switches > n {
		env.Fault("preemption")
	}
	res.FromEnv(env)
	res.Sig = kernel.Mix(kernel.Mix(res.Sig, k.Signature()), kernel.HashString(sb.String()))
	return res
}

func progString(p []int) string {
	var s []string
	for _, x := range p {
		s = append(s, []string{"RI", "CT", "RF", "AU", "BV", "RA", "BVL"}[x])
	}
	return strings.Join(s, ">")
}

func memoClass(m string) string {
	for _, n := range stepNames {
		if strings.Contains(m, n+":") {
			switch {
			case strings.Contains(m, "consulted again"):
				return n + ":authenticators-consulted-again"
			case strings.Contains(m, "ran again"), strings.Contains(m, "read again"):
				return n + ":body-consumed-again"
			case strings.Contains(m, "different *MatchedRoute"):
				return n + ":route-looked-up-again"
			case strings.Contains(m, "new request value"):
				return n + ":new-request-value"
			case strings.Contains(m, "still in the request context"):
				return n + ":not-reset"
			}
			return n + ":other"
		}
	}
	if strings.Contains(m, "consumed") {
		return "body-consumed-twice"
	}
	return "other"
}

func ownClass(m string) string {
	switch {
	case strings.Contains(m, "path value"):
		return "path-params"
	case strings.Contains(m, "query"):
		return "query"
	case strings.Contains(m, "principal"):
		return "principal"
	case strings.Contains(m, "consumer"):
		return "consumer"
	case strings.Contains(m, "handler of"):
		return "route"
	case strings.Contains(m, "body"):
		return "body"
	case strings.Contains(m, "response"):
		return "response"
	}
	return "other"
}

func diffField(a, b record) string {
	switch {
	case a.status != b.status:
		return "status"
	case a.steps != b.steps:
		return "accessor-results"
	case a.slot != b.slot:
		return "collaborator-observations"
	case a.respBody != b.respBody:
		return "response-body"
	case a.ctHeader != b.ctHeader:
		return "response-content-type"
	case a.memo != b.memo:
		return "memo"
	case a.own != b.own:
		return "own"
	}
	return "panic"
}

func trim(s string, n int) string {
	if len(s) > n {
		return s[:n] + "\n…"
	}
	return s
}
