// Package c17: probing a request for a body never loses, reorders or
// fabricates body bytes (runtime.HasBody / peekingReader).  SEQ driver: the
// history of HasBody / Read / Close over a scripted stream is the test.
package c17

import (
	"bytes"
	"context"
	"encoding/json"
	"fmt"
	"io"
	"net/http"
	"strings"
	"testing"

	"github.com/go-openapi/runtime"

	"verif.local/sim/kernel"
)

type prop struct{}

func init() { kernel.Register(prop{}) }

func (prop) ID() string     { return "C17" }
func (prop) Engine() string { return "SEQ" }
func (prop) Level() string  { return "fault_enumeration" }

func (prop) Budget(tier string) int {
	if tier == "thorough" {
		return 6000000
	}
	return 400000
}

func (prop) Describe() kernel.Description {
	return kernel.Description{
		Rule: "Dimensions added with the seed waves: io.Copy as a consumption step; terminal errors reported once, of several values; a one-off read failure in the middle of the stream; bodies that can seek, handed over past their start; request contexts live / cancellable / already done; a warm-up request and a sibling request alive at the same time. " +
			"one run = one scripted underlying stream (content 0..10000 bytes, chunk plan, zero-length reads, data+EOF, " +
			"injected error at a chosen offset (sticky, or reported once and io.EOF afterwards) or clean EOF, or nil body) × Content-Length declared positive/zero/absent × a tape-drawn " +
			"history (≤12) of HasBody / Read(buffer 0,1,small,huge) / io.Copy / Close, checked step by step against a reference model " +
			"(remaining bytes + terminal condition + closed flag). thorough adds the sweep: ~20 stream shapes × every error offset × " +
			"every position of a HasBody probe in a fixed read/close script. distinct = distinct history signature (hash of every " +
			"stream operation and result); non-trivial = at least one fault kind fired (short read, zero-length read, data+EOF, read error, nil body).",
		Real:  []string{"runtime.HasBody", "runtime.peekingReader (Read/Close/HasContent)", "bufio.Reader"},
		Stubs: []string{"underlying request body (scripted Stream)", "http.Request built by hand (no network)"},
		Assumptions: []string{
			"with a positive declared length HasBody does not wrap the body, so closes are forwarded one-to-one and are not counted against the wrapper",
			"a Close issued before the first wrapping probe is the caller's own",
			"a zero-length Read after Close may return (0,nil); data, success for a non-empty buffer, or a clean io.EOF for a non-empty buffer (which io.ReadAll reports as success) are failures",
			"HasBody after Close must answer false (nothing can be read any more)",
			"zero-length reads of the underlying stream are bounded (≤3 per stream) so bufio's 100-empty-reads guard is never the subject",
		},
	}
}

type sweepParams struct {
	Shape   int `json:"shape"`
	ErrOff  int `json:"err_off"` // -1: clean EOF
	ProbeAt int `json:"probe_at"`
}

var shapeLens = []int{0, 1, 2, 3, 5, 17, 64, 511, 512, 513, 4095, 4096, 4097, 5000, 8192, 8193, 9000, 10000}

func (prop) Sweep(tier string) []kernel.Scenario {
	if tier != "thorough" {
		// a small slice of the sweep runs on every change
		var out []kernel.Scenario
		for shape := 0; shape < 6; shape++ {
			n := shapeLens[shape]
			for off := -1; off <= n; off++ {
				for probe := 0; probe < 5; probe++ {
					b, _ := json.Marshal(sweepParams{shape, off, probe})
					out = append(out, kernel.Scenario{Name: "sweep", Params: b})
				}
			}
		}
		return out
	}
	var out []kernel.Scenario
	for shape, n := range shapeLens {
		step := 1
		if n > 600 {
			step = 97
		}
		offs := []int{-1}
		for off := 0; off <= n; off += step {
			offs = append(offs, off)
		}
		for _, edge := range []int{n - 1, n, 4095, 4096, 4097} {
			if edge >= 0 && edge <= n {
				offs = append(offs, edge)
			}
		}
		for _, off := range offs {
			for probe := 0; probe < 5; probe++ {
				b, _ := json.Marshal(sweepParams{shape, off, probe})
				out = append(out, kernel.Scenario{Name: "sweep", Params: b})
			}
		}
	}
	return out
}

const (
	opHasBody = iota
	opRead
	opClose
	opCopy // the rest of the body is consumed with io.Copy (which prefers the body's own WriteTo, if it has one)
)

type step struct {
	op  int
	buf int
}

type model struct {
	data      []byte // everything the underlying stream will deliver
	term      error
	delivered int  // bytes handed to the caller so far
	termSeen  bool // the caller has seen the terminal condition
	closed    bool
	wrapped   bool // a probe has installed a wrapper
	closesPre int  // closes before the first wrap (caller's own, forwarded one-to-one)
	closesAny bool // a close after the wrap
	// a read that fails once (a timeout) when the stream stands at this offset, delivering nothing; the stream then carries on
	transientAt   int
	transientSeen bool // the caller has been told
}

func (prop) Run(t *testing.T, tape *kernel.Tape, sc kernel.Scenario) *kernel.Result {
	env := kernel.NewEnv(tape)
	res := &kernel.Result{}
	var (
		content  []byte
		st       *kernel.Stream
		nilBody  bool
		declared int // >0 positive, 0 header says zero, -1 absent
		script   []step
	)
	if sc.Name == "sweep" {
		var p sweepParams
		_ = json.Unmarshal(sc.Params, &p)
		n := shapeLens[p.Shape]
		content = pattern(n)
		st = kernel.NewStream(env, "body", content)
		if p.ErrOff >= 0 {
			st.Data = content[:p.ErrOff]
			st.Term = &kernel.InjectedError{What: fmt.Sprintf("read error at %d", p.ErrOff)}
		}
		st.ChunkMode = tape.Choose(4, "chunkmode")
		st.FixedChunk = 1 + tape.Choose(700, "fixed")
		st.TermWithData = tape.Bool(2, "term-with-data")
		st.ZeroReads = tape.Choose(3, "zero-budget")
		declared = -1
		// fixed script: read 1, read small, read huge, read huge, close, read — with a probe inserted at ProbeAt
		base := []step{{opRead, 1}, {opRead, 7}, {opRead, 16384}, {opRead, 16384}, {opClose, 0}, {opRead, 4}}
		for i, s := range base {
			if i == p.ProbeAt {
				script = append(script, step{op: opHasBody})
			}
			script = append(script, s)
		}
		script = append(script, step{op: opHasBody})
	} else {
		switch tape.Weighted("body-kind", 30, 1) {
		case 1:
			nilBody = true
			env.Fault("nil-body")
		}
		var n int
		switch tape.Choose(4, "len-class") {
		case 0:
			n = tape.Choose(4, "len-tiny")
		case 1:
			n = tape.Choose(600, "len-small")
		case 2:
			n = []int{4095, 4096, 4097, 8191, 8192, 8193}[tape.Choose(6, "len-edge")]
		default:
			n = tape.Choose(10001, "len")
		}
		content = pattern(n)
		st = kernel.NewStream(env, "body", content)
		st.ChunkMode = tape.Choose(4, "chunkmode")
		st.FixedChunk = 1 + tape.Choose(5000, "fixed")
		st.TermWithData = tape.Bool(2, "term-with-data")
		st.ZeroReads = tape.Choose(4, "zero-budget")
		if tape.Bool(5, "close-error?") {
			st.CloseErr = &kernel.InjectedError{What: "closing the underlying stream failed"}
		}
		if tape.Bool(3, "inject-error?") {
			off := tape.Choose(n+1, "err-off")
			if tape.Bool(3, "err-near-start") && n > 0 {
				off = tape.Choose(min(n, 3)+1, "err-off-small")
			}
			st.Data = content[:off]
			st.Term = &kernel.InjectedError{What: fmt.Sprintf("read error at %d", off)}
			st.ErrOnce = tape.Bool(3, "error-reported-once")
			switch tape.Weighted("terminal-error-value", 3, 1, 1) {
			case 1:
				st.Term = io.ErrUnexpectedEOF
			case 2:
				st.Term = fmt.Errorf("connection lost: %w", io.EOF)
			}
		}
		if tape.Bool(5, "transient-read-error?") {
			st.TransientErrAt = tape.Choose(len(st.Data)+1, "transient-at")
			if st.TransientErrAt == len(st.Data) {
				st.TermWithData = false // the end marker must not ride along with the last byte past the waiting error
			}
		}
		switch tape.Weighted("declared", 6, 2, 2) {
		case 0:
			declared = -1
		case 1:
			declared = 0
		default:
			declared = len(content)
			if declared == 0 || tape.Bool(4, "declared-other") {
				declared = 1 + tape.Choose(20000, "declared-n")
			}
		}
		nsteps := 1 + tape.Choose(12, "nsteps")
		for i := 0; i < nsteps; i++ {
			switch tape.Weighted("step", 4, 3, 1, 1) {
			case 0:
				sizes := []int{16384, 0, 1, 2, 7, 512, 4096, 4097}
				script = append(script, step{opRead, sizes[tape.Choose(len(sizes), "bufsize")]})
			case 1:
				script = append(script, step{op: opHasBody})
			case 3:
				script = append(script, step{op: opCopy})
			default:
				script = append(script, step{op: opClose})
			}
		}
	}

	req := &http.Request{Method: "POST", Header: http.Header{}}
	if sc.Name != "sweep" {
		// probing does not depend on the request's context: live, or already ended (abandoned request)
		switch tape.Weighted("request-context", 4, 1, 1) {
		case 1:
			cctx, cancel := context.WithCancel(context.Background())
			defer cancel()
			req = req.WithContext(cctx)
		case 2:
			cctx, cancel := context.WithCancel(context.Background())
			cancel()
			req = req.WithContext(cctx)
			env.Fault("request-context-already-done")
		}
	}
	switch {
	case declared > 0:
		req.ContentLength = int64(declared)
		req.Header.Set("Content-Length", fmt.Sprint(declared))
	case declared == 0:
		req.ContentLength = 0
		req.Header.Set("Content-Length", "0")
	default:
		if tape.Bool(2, "cl-minus-one") {
			req.ContentLength = -1
		}
	}
	seekStart := 0
	if !nilBody {
		req.Body = st
		if sc.Name != "sweep" && st.Term == nil && st.TransientErrAt < 0 && tape.Bool(6, "seekable-body-handed-over-past-its-start") {
			// like an *os.File or a spooled upload the application has already read an envelope from: the body is what is left
			seekStart = tape.Choose(len(st.Data)+1, "already-consumed")
			st.Pos = seekStart
			req.Body = &seekableBody{Stream: st}
			env.Fault("seekable-body-handed-over-past-its-start")
		}
	}
	// other requests of the same process: one served to its end before (warm-up), one alive at the same time (sibling)
	var sib *http.Request
	var sibData []byte
	if sc.Name != "sweep" {
		mk := func(name string, n int) (*http.Request, []byte) {
			data := bytes.ToUpper(pattern(n))
			r := &http.Request{Method: "POST", Header: http.Header{}, ContentLength: -1}
			r.Body = kernel.NewStream(env, name, data)
			return r, data
		}
		if tape.Bool(3, "warm-up-request") {
			env.Probe("warm-up-request")
			w, _ := mk("warmup", 1+tape.Choose(6000, "warmup-len"))
			if pm := kernel.Catch(func() {
				runtime.HasBody(w)
				_, _ = io.Copy(io.Discard, w.Body)
				_ = w.Body.Close()
			}); pm != "" {
				env.Violate("C17/panic", "warm-up", "serving an earlier request panicked: %s", pm)
			}
		}
		if tape.Bool(3, "sibling-request") {
			env.Probe("sibling-request")
			sib, sibData = mk("sibling", 1+tape.Choose(6000, "sibling-len"))
			var has bool
			if pm := kernel.Catch(func() { has = runtime.HasBody(sib) }); pm != "" {
				env.Violate("C17/panic", "sibling", "probing a second request panicked: %s", pm)
				sib = nil
			} else if !has {
				env.Violate("C17/hasbody-wrong", "sibling", "a second request with %d body bytes was reported to have no body", len(sibData))
			}
		}
	}
	defer func() {
		if sib == nil {
			return
		}
		var got []byte
		var err error
		if pm := kernel.Catch(func() { got, err = io.ReadAll(sib.Body) }); pm != "" {
			env.Violate("C17/panic", "sibling", "reading a second request's body panicked: %s", pm)
		} else if err != nil || !bytes.Equal(got, sibData) {
			env.Violate("C17/bytes-mismatch", "another-request", "a second request alive at the same time read %d bytes (err %v) that are not its own %d bytes", len(got), err, len(sibData))
		}
		res.Viol = nil
		res.FromEnv(env)
	}()
	m := &model{data: st.Data[seekStart:], term: st.Term, transientAt: st.TransientErrAt}
	if m.term == nil {
		m.term = io.EOF
	}
	if nilBody {
		m.data = nil
		m.term = io.EOF
		m.transientAt = -1
	}
	bodyKind := "body"
	if nilBody {
		bodyKind = "nil-body"
	}
	var lastProbe *bool
	res.Summary = fmt.Sprintf("len=%d delivered-prefix=%d term=%v declared=%d nil=%v steps=%s", len(content), len(st.Data), m.term, declared, nilBody, scriptString(script))

	for i, s := range script {
		switch s.op {
		case opHasBody:
			var got bool
			if pm := kernel.Catch(func() { got = runtime.HasBody(req) }); pm != "" {
				env.Violate("C17/panic", bodyKind+":HasBody", "step %d: HasBody panicked: %s", i, pm)
				goto done
			}
			want := declared > 0 || (declared < 0 && !m.closed && !m.termSeen && m.delivered < len(m.data))
			// If the terminal has been seen nothing more can be read; if not yet seen but no data remains → false as well.
			env.Log("probe", "HasBody → %v", got)
			// the stream's next answer is a failure that has not been passed on yet: whether "a byte can be read" is then
			// a matter of opinion (the bytes are there for whoever reads on), so the answer is not judged, only its stability
			transientNext := declared < 0 && !m.closed && !nilBody && m.transientAt >= 0 && !m.transientSeen && m.delivered == m.transientAt
			if got != want && !transientNext {
				env.Violate("C17/hasbody-wrong", fmt.Sprintf("%s:declared=%s:want=%v", bodyKind, declClass(declared), want),
					"step %d: HasBody=%v, model says %v (delivered %d of %d, closed=%v)", i, got, want, m.delivered, len(m.data), m.closed)
			}
			if lastProbe != nil && *lastProbe != got {
				env.Violate("C17/hasbody-unstable", bodyKind, "step %d: HasBody changed from %v to %v with nothing read in between", i, *lastProbe, got)
			}
			g := got
			lastProbe = &g
			if declared < 0 && !nilBody {
				if !m.wrapped {
					env.Probe("first-wrap")
				} else {
					env.Probe("stacked-wrappers")
				}
				m.wrapped = true
			}
			if declared < 0 && nilBody {
				m.wrapped = true
			}
		case opRead:
			lastProbe = nil
			if req.Body == nil {
				continue
			}
			buf := make([]byte, s.buf)
			var n int
			var err error
			if pm := kernel.Catch(func() { n, err = req.Body.Read(buf) }); pm != "" {
				env.Violate("C17/panic", bodyKind+":Read", "step %d: Read panicked: %s", i, pm)
				goto done
			}
			env.Log("caller", "Read(%d) → %d,%v", s.buf, n, err)
			if n < 0 || n > len(buf) {
				env.Violate("C17/bytes-mismatch", bodyKind, "step %d: Read returned n=%d for a %d-byte buffer", i, n, len(buf))
				goto done
			}
			if m.closed {
				env.Probe("read-after-close")
				if n > 0 || (err == nil && len(buf) > 0) {
					env.Violate("C17/read-after-close", bodyKind, "step %d: read after close returned %d,%v", i, n, err)
				} else if err == io.EOF && len(buf) > 0 && !nilBody {
					// a clean end of stream is not a failure: io.ReadAll and friends report success on it
					env.Violate("C17/read-after-close", bodyKind+":reported-as-a-clean-end", "step %d: read after close returned %d,%v — the end-of-stream marker, not a failure", i, n, err)
				}
				continue
			}
			if n > 0 && m.transientAt >= 0 && !m.transientSeen && m.delivered <= m.transientAt && m.delivered+n > m.transientAt {
				env.Violate("C17/terminal-wrong", bodyKind+":read-error-skipped", "step %d: read %d bytes from offset %d: the stream failed once at offset %d and the caller was never told", i, n, m.delivered, m.transientAt)
				goto done
			}
			if n > 0 {
				end := m.delivered + n
				if end > len(m.data) || !bytes.Equal(buf[:n], m.data[m.delivered:end]) {
					env.Violate("C17/bytes-mismatch", bodyKind, "step %d: read %d bytes at offset %d that are not the original bytes", i, n, m.delivered)
					goto done
				}
				m.delivered = end
			}
			if err != nil && kernel.IsTransient(err) {
				if m.transientSeen || m.delivered != m.transientAt {
					env.Violate("C17/terminal-wrong", bodyKind+":transient-misplaced", "step %d: the stream's one-off read failure surfaced at offset %d (seen before: %v), it happened at %d", i, m.delivered, m.transientSeen, m.transientAt)
					goto done
				}
				m.transientSeen = true
				continue
			}
			if err != nil {
				if m.delivered != len(m.data) {
					env.Violate("C17/terminal-wrong", bodyKind+":early", "step %d: error %v after %d of %d bytes", i, err, m.delivered, len(m.data))
					goto done
				}
				wantTerm := m.term
				if m.termSeen && st.ErrOnce {
					wantTerm = io.EOF // the stream reports its error once; after that it is simply at its end
				}
				if err != wantTerm {
					cls := bodyKind + ":other"
					if st.ErrOnce && !m.termSeen && err == io.EOF {
						cls = bodyKind + ":error-reported-once-was-lost"
					}
					env.Violate("C17/terminal-wrong", cls, "step %d: terminal condition %v, original was %v", i, err, wantTerm)
				}
				m.termSeen = true
			}
		case opCopy:
			lastProbe = nil
			if req.Body == nil {
				continue
			}
			var sink bytes.Buffer
			var n int64
			var err error
			if pm := kernel.Catch(func() { n, err = io.Copy(&sink, req.Body) }); pm != "" {
				env.Violate("C17/panic", bodyKind+":Copy", "step %d: io.Copy from the body panicked: %s", i, pm)
				goto done
			}
			env.Log("caller", "io.Copy → %d,%v", n, err)
			if m.closed {
				env.Probe("read-after-close")
				if n > 0 || (err == nil && !nilBody) {
					env.Violate("C17/read-after-close", bodyKind+":copy", "step %d: io.Copy from the closed body returned %d,%v", i, n, err)
				}
				continue
			}
			if m.transientAt >= m.delivered && !m.transientSeen && m.transientAt >= 0 {
				// the copy runs into the one-off failure and stops there
				upTo := m.data[m.delivered:m.transientAt]
				if !bytes.Equal(sink.Bytes(), upTo) || !kernel.IsTransient(err) {
					env.Violate("C17/terminal-wrong", bodyKind+":copy-past-a-read-error", "step %d: io.Copy from offset %d delivered %d bytes and ended with %v; the stream fails once at offset %d", i, m.delivered, sink.Len(), err, m.transientAt)
					goto done
				}
				m.delivered = m.transientAt
				m.transientSeen = true
				continue
			}
			rest := m.data[m.delivered:]
			if !bytes.Equal(sink.Bytes(), rest) {
				env.Violate("C17/bytes-mismatch", bodyKind+":copy", "step %d: io.Copy delivered %d bytes from offset %d, the stream has %d left (first difference at %d)", i, sink.Len(), m.delivered, len(rest), firstDiff(sink.Bytes(), rest))
				goto done
			}
			m.delivered = len(m.data)
			wantErr := m.term
			if wantErr == io.EOF || (m.termSeen && st.ErrOnce) {
				wantErr = nil
			}
			if err != wantErr {
				cls := bodyKind + ":copy"
				if st.ErrOnce && !m.termSeen && err == nil {
					cls = bodyKind + ":error-reported-once-was-lost"
				}
				env.Violate("C17/terminal-wrong", cls, "step %d: io.Copy ended with %v, the stream's terminal condition is %v", i, err, m.term)
			}
			m.termSeen = true
		case opClose:
			lastProbe = nil
			if req.Body == nil {
				continue
			}
			var err error
			if pm := kernel.Catch(func() { err = req.Body.Close() }); pm != "" {
				env.Violate("C17/panic", bodyKind+":Close", "step %d: Close panicked: %s", i, pm)
				goto done
			}
			env.Log("caller", "Close → %v", err)
			if !m.wrapped {
				m.closesPre++
			} else {
				m.closesAny = true
			}
			m.closed = true
		}
	}
	if !nilBody {
		want := m.closesPre
		if m.closesAny && m.closesPre == 0 {
			want = 1
		}
		// closes after the wrap when the caller had already closed it itself: the wrapper may forward one more.
		if m.closesAny && m.closesPre > 0 {
			if st.Closed < m.closesPre || st.Closed > m.closesPre+1 {
				env.Violate("C17/close-count", "body:pre-closed", "underlying stream closed %d times; caller closed it %d times before the probe", st.Closed, m.closesPre)
			}
		} else if st.Closed != want {
			env.Violate("C17/close-count", fmt.Sprintf("body:want=%d", want), "underlying stream closed %d times, want %d (wrapped=%v)", st.Closed, want, m.wrapped)
		}
		if st.ReadsAfterClose > 0 {
			env.Probe("underlying-read-after-close")
		}
	}
done:
	res.FromEnv(env)
	return res
}

func declClass(d int) string {
	switch {
	case d > 0:
		return "positive"
	case d == 0:
		return "zero"
	}
	return "absent"
}

func pattern(n int) []byte {
	b := make([]byte, n)
	for i := range b {
		b[i] = byte('a' + (i*7+i/251)%26)
	}
	return b
}

func scriptString(s []step) string {
	var sb strings.Builder
	for _, x := range s {
		switch x.op {
		case opHasBody:
			sb.WriteString("H ")
		case opRead:
			fmt.Fprintf(&sb, "R%d ", x.buf)
		default:
			sb.WriteString("C ")
		}
	}
	return strings.TrimSpace(sb.String())
}

func firstDiff(a, b []byte) int {
	n := min(len(a), len(b))
	for i := 0; i < n; i++ {
		if a[i] != b[i] {
			return i
		}
	}
	return n
}

// seekableBody is a body that can also seek (an *os.File, a spooled upload).
type seekableBody struct{ *kernel.Stream }

func (b *seekableBody) Seek(offset int64, whence int) (int64, error) {
	var abs int64
	switch whence {
	case io.SeekStart:
		abs = offset
	case io.SeekCurrent:
		abs = int64(b.Pos) + offset
	case io.SeekEnd:
		abs = int64(len(b.Data)) + offset
	}
	if abs < 0 || abs > int64(len(b.Data)) {
		return 0, fmt.Errorf("seek out of range")
	}
	b.Pos = int(abs)
	b.TermDelivered = false
	b.Env.Probe("body-seeked")
	return abs, nil
}
