package c12

import (
	"bufio"
	"context"
	"encoding/json"
	"fmt"
	"io"
	"net"
	"net/http"
	"strings"
	"testing"
	"testing/synctest"
	"time"

	"github.com/go-openapi/runtime"
	"github.com/go-openapi/runtime/client"
	"github.com/go-openapi/strfmt"

	"verif.local/sim/kernel"
	"verif.local/sim/simhttp"
)

// The wire tier: the real net/http Transport over an in-memory connection
// (net.Pipe) inside the synctest bubble, against a scripted byte server that
// writes the response in fragments at distinct fake-clock instants and cuts,
// stalls or closes at a chosen byte offset of status line, headers or body.
// net/http's own goroutines are scheduled by the Go runtime, not by the tape;
// only outcome-level facts enter the history, and every timed event sits on its
// own fake instant so that the outcome is a function of the scenario.

type wireScn struct {
	Payload  string `json:"payload"` // none value file
	FileLen  int    `json:"file_len"`
	Framing  int    `json:"framing"` // 0 content-length 1 chunked 2 until-close
	BodyLen  int    `json:"body_len"`
	Status   int    `json:"status"`
	CutAt    int    `json:"cut_at"`   // byte offset in the serialised response; -1 = none
	Action   int    `json:"action"`   // at CutAt: 1 close the connection, 2 stall forever
	Fragment int    `json:"fragment"` // bytes per write (0 = whole)
	Timeout  int64  `json:"timeout_us"`
	Parent   int    `json:"parent"` // 0 none 1 deadline 2 cancel
	ParentUS int64  `json:"parent_us"`
	Reuse    bool   `json:"reuse"`
	Reader   int    `json:"reader"` // 0 all 1 k bytes 2 none
	ReaderK  int    `json:"reader_k"`
	Close    bool   `json:"close"`
	Second   bool   `json:"second"` // issue a second call afterwards (connection reuse probe)
}

func (s *wireScn) String() string { b, _ := json.Marshal(s); return "wire " + string(b) }

func genWire(t *kernel.Tape) *wireScn {
	s := &wireScn{CutAt: -1}
	s.Payload = []string{"none", "value", "file"}[t.Choose(3, "w-payload")]
	s.FileLen = []int{0, 10, 700, 5000}[t.Choose(4, "w-filelen")]
	s.Framing = t.Choose(3, "w-framing")
	s.BodyLen = []int{0, 1, 40, 300, 5000}[t.Choose(5, "w-bodylen")]
	s.Status = []int{200, 201, 404, 500}[t.Choose(4, "w-status")]
	s.Fragment = []int{0, 1, 7, 64}[t.Choose(4, "w-fragment")]
	s.Reuse = t.Bool(2, "w-reuse")
	s.Reader = t.Weighted("w-reader", 3, 2, 1)
	s.ReaderK = t.Choose(s.BodyLen+1, "w-reader-k")
	s.Close = t.Bool(2, "w-close")
	s.Second = t.Bool(2, "w-second")
	switch t.Choose(4, "w-timeout") {
	case 0:
		s.Timeout = 0
	default:
		s.Timeout = int64(500 + 1000*t.Choose(400, "w-timeout-us")) // x.5 ms: never ties with a server write
	}
	s.Parent = t.Weighted("w-parent", 3, 1, 1)
	s.ParentUS = int64(250 + 1000*t.Choose(400, "w-parent-us"))
	if t.Bool(2, "w-fault") {
		resp := s.response()
		s.CutAt = t.Choose(len(resp)+1, "w-cut-at")
		s.Action = 1 + t.Choose(2, "w-action")
	}
	if s.Action == 2 && s.Timeout == 0 && s.Parent == 0 {
		s.Timeout = 200500
	}
	return s
}

func (s *wireScn) body() []byte { return content(s.BodyLen, 31) }

// response serialises the scripted answer.
func (s *wireScn) response() []byte {
	var sb strings.Builder
	fmt.Fprintf(&sb, "HTTP/1.1 %d %s\r\nContent-Type: application/json\r\nX-Sim: wire\r\n", s.Status, http.StatusText(s.Status))
	b := s.body()
	switch s.Framing {
	case 0:
		fmt.Fprintf(&sb, "Content-Length: %d\r\n\r\n%s", len(b), b)
	case 1:
		sb.WriteString("Transfer-Encoding: chunked\r\n\r\n")
		for i := 0; i < len(b); i += 100 {
			j := min(i+100, len(b))
			fmt.Fprintf(&sb, "%x\r\n%s\r\n", j-i, b[i:j])
		}
		sb.WriteString("0\r\n\r\n")
	default:
		fmt.Fprintf(&sb, "Connection: close\r\n\r\n%s", b)
	}
	return []byte(sb.String())
}

type wireServer struct {
	s        *wireScn
	dials    int
	conns    []*serverConn
	requests int
	start    time.Time
}

type serverConn struct {
	c         net.Conn
	sawClose  bool
	served    int
	reqBodies []int
}

// serve answers requests on one connection according to the scenario.
func (ws *wireServer) serve(sc *serverConn) {
	br := bufio.NewReader(sc.c)
	for {
		req, err := http.ReadRequest(br)
		if err != nil {
			sc.sawClose = true
			sc.c.Close()
			return
		}
		body, err := io.ReadAll(req.Body)
		if err != nil {
			sc.sawClose = true
			sc.c.Close()
			return
		}
		sc.reqBodies = append(sc.reqBodies, len(body))
		n := ws.requests
		ws.requests++
		resp := ws.s.response()
		cut, action := -1, 0
		if n == 0 {
			cut, action = ws.s.CutAt, ws.s.Action
		}
		frag := ws.s.Fragment
		if frag <= 0 {
			frag = len(resp)
		}
		sent := 0
		for sent < len(resp) {
			if cut >= 0 && sent >= cut {
				break
			}
			end := min(sent+frag, len(resp))
			if cut >= 0 && end > cut {
				end = cut
			}
			time.Sleep(time.Millisecond) // one fragment per fake millisecond
			if end > sent {
				if _, err := sc.c.Write(resp[sent:end]); err != nil {
					sc.sawClose = true
					sc.c.Close()
					return
				}
			}
			sent = end
		}
		if cut >= 0 && cut < len(resp) {
			switch action {
			case 1:
				time.Sleep(time.Millisecond)
				sc.c.Close()
				return
			case 2:
				// stall: wait until the client gives up and closes
				buf := make([]byte, 1)
				for {
					if _, err := sc.c.Read(buf); err != nil {
						sc.sawClose = true
						sc.c.Close()
						return
					}
				}
			}
		}
		sc.served++
		if ws.s.Framing == 2 {
			time.Sleep(time.Millisecond)
			sc.c.Close()
			return
		}
	}
}

func runWire(t *testing.T, tape *kernel.Tape, s *wireScn) *kernel.Result {
	env := kernel.NewEnv(tape)
	res := &kernel.Result{Summary: s.String()}
	kernel.DrawOrder(tape)
	defer kernel.UninstallOrder()
	type callOut struct {
		ret       any
		err       error
		panicMsg  string
		returned  bool
		at        time.Duration
		readerRan bool
		sawErr    error
		got       int
	}
	var (
		first, second callOut
		ws            = &wireServer{s: s}
		leaked        []string
		netLeaked     []string
		file          *simhttp.UploadFile
		cancelAt      time.Duration = -1
		deadline      time.Duration = -1
		stuck         bool
	)
	kernel.RunBubble(t, env, func(k *kernel.K1) {
		k.MaxSteps = 40000
		ws.start = k.Start()
		tr := &http.Transport{
			DialContext: func(ctx context.Context, network, addr string) (net.Conn, error) {
				c1, c2 := net.Pipe()
				sc := &serverConn{c: c2}
				ws.conns = append(ws.conns, sc)
				ws.dials++
				go ws.serve(sc)
				return c1, nil
			},
			DisableCompression: true,
			MaxIdleConns:       4,
			IdleConnTimeout:    0,
		}
		rt := client.New("sim.local", "/base", []string{"http"})
		rt.Transport = tr
		if s.Reuse {
			rt.EnableConnectionReuse()
		}
		mkOp := func(out *callOut, withParent bool) *runtime.ClientOperation {
			op := &runtime.ClientOperation{ID: "wire", Method: "POST", PathPattern: "/things/{id}", Schemes: []string{"http"},
				ProducesMediaTypes: []string{"application/json"}, ConsumesMediaTypes: []string{"application/json"},
				Params: runtime.ClientRequestWriterFunc(func(req runtime.ClientRequest, _ strfmt.Registry) error {
					_ = req.SetPathParam("id", "7")
					_ = req.SetTimeout(time.Duration(s.Timeout) * time.Microsecond)
					switch s.Payload {
					case "value":
						return req.SetBodyParam(map[string]string{"k": "v"})
					case "file":
						if withParent { // only the first call uploads the scripted file
							return req.SetFileParam("file", file)
						}
					}
					return nil
				}),
				Reader: runtime.ClientResponseReaderFunc(func(r runtime.ClientResponse, _ runtime.Consumer) (any, error) {
					out.readerRan = true
					body := r.Body()
					limit := -1
					switch s.Reader {
					case 1:
						limit = s.ReaderK
					case 2:
						limit = 0
					}
					buf := make([]byte, 97)
					for limit < 0 || out.got < limit {
						b := buf
						if limit >= 0 && limit-out.got < len(b) {
							b = b[:limit-out.got]
						}
						n, err := body.Read(b)
						out.got += n
						if err == io.EOF {
							break
						}
						if err != nil {
							out.sawErr = err
							break
						}
					}
					if s.Close {
						_ = body.Close()
					}
					if out.sawErr != nil {
						return nil, out.sawErr
					}
					return fmt.Sprintf("%d:%d", r.Code(), out.got), nil
				})}
			if s.Payload == "file" && withParent {
				op.ConsumesMediaTypes = []string{"multipart/form-data"}
			}
			return op
		}
		if s.Payload == "file" {
			st := kernel.NewStream(env, "file0", content(s.FileLen, 3))
			st.Tag = "source"
			st.ChunkMode = kernel.ChunkFixed
			st.FixedChunk = 512
			file = &simhttp.UploadFile{Stream: st, FileName: "w.bin"}
		}
		op1 := mkOp(&first, true)
		var cancelParent context.CancelFunc
		switch s.Parent {
		case 1:
			ctx, c := context.WithTimeout(context.Background(), time.Duration(s.ParentUS)*time.Microsecond)
			op1.Context, cancelParent = ctx, c
			deadline = time.Duration(s.ParentUS) * time.Microsecond
		case 2:
			ctx, c := context.WithCancel(context.Background())
			op1.Context, cancelParent = ctx, c
			go func() {
				time.Sleep(time.Duration(s.ParentUS) * time.Microsecond)
				if !first.returned {
					cancelAt = k.Now()
					env.Fault("parent-cancel")
				}
				c()
			}()
		}
		if s.Timeout > 0 {
			to := time.Duration(s.Timeout) * time.Microsecond
			if deadline < 0 || to < deadline {
				deadline = to
			}
		}
		k.Go("caller", func() {
			first.panicMsg = kernel.Catch(func() { first.ret, first.err = rt.Submit(op1) })
			first.at = k.Now()
			first.returned = true
			if s.Second && first.panicMsg == "" {
				second.panicMsg = kernel.Catch(func() { second.ret, second.err = rt.Submit(mkOp(&second, false)) })
				second.at = k.Now()
				second.returned = true
			}
		})
		k.Run()
		stuck = k.Stuck
		if k.Overrun {
			res.Infra = "step budget exceeded"
		}
		if !k.Stuck && !k.Overrun {
			k.SettleAll()
		}
		if cancelParent != nil {
			cancelParent()
		}
		tr.CloseIdleConnections()
		time.Sleep(time.Hour)
		synctest.Wait()
		leaked = kernel.LeakedGoroutines("github.com/go-openapi/runtime/")
		netLeaked = kernel.LeakedGoroutines("net/http.(*persistConn).readLoop", "net/http.(*persistConn).writeLoop")
		for _, sc := range ws.conns {
			sc.c.Close() // let the scripted servers end
		}
	})
	sig := fmt.Sprintf("wire:framing=%d:action=%d:reuse=%v", s.Framing, s.Action, s.Reuse)
	if s.CutAt >= 0 {
		env.Fault([]string{"", "server-close-at-offset", "server-stall-at-offset"}[s.Action])
	}
	if s.Fragment > 0 {
		env.Fault("fragmented-response")
	}
	env.Log("wire", "first: returned=%v err=%v at=%v reader=%v got=%d; second: returned=%v err=%v; dials=%d", first.returned, first.err != nil, first.at, first.readerRan, first.got, second.returned, second.err != nil, ws.dials)
	if res.Infra != "" {
		res.FromEnv(env)
		return res
	}
	if first.panicMsg != "" || second.panicMsg != "" {
		env.Violate("C12/panic", sig, "Submit panicked: %s %s", first.panicMsg, second.panicMsg)
	}
	if stuck || !first.returned {
		env.Violate("C12/no-return", sig, "Submit did not return (stuck=%v)", stuck)
		res.FromEnv(env)
		return res
	}
	limit := deadline
	if cancelAt >= 0 && (limit < 0 || cancelAt < limit) {
		limit = cancelAt
	}
	if limit >= 0 && first.at > limit {
		env.Violate("C12/late-return", "wire:"+sig, "effective deadline / cancellation at %v but Submit returned at %v", limit, first.at)
	}
	resp := s.response()
	hdrEnd := strings.Index(string(resp), "\r\n\r\n") + 4
	complete := s.CutAt < 0 || s.CutAt >= len(resp) || (s.Framing == 2 && s.Action == 1 && s.CutAt >= hdrEnd)
	hitLimit := limit >= 0 && first.at >= limit
	if !complete && !hitLimit && first.err == nil && (s.Reader == 0 || s.CutAt < hdrEnd) {
		env.Violate("C12/fault-swallowed", sig, "the server cut the response at byte %d of %d (action %d), the reader read to the end, yet Submit reported success (%v)", s.CutAt, len(resp), s.Action, first.ret)
	}
	if complete && !hitLimit && cancelAt < 0 && first.err != nil {
		env.Violate("C12/spurious-error", sig, "complete response, no deadline hit, yet Submit failed: %v", first.err)
	}
	sentBody := s.BodyLen
	if s.CutAt >= hdrEnd && s.CutAt < len(resp) && s.Framing == 2 {
		sentBody = s.CutAt - hdrEnd // read-until-close framing: closing early is a (shorter) complete body
	}
	if complete && first.err == nil && s.Reader == 0 && first.got != sentBody {
		env.Violate("C12/wrong-result", sig, "reader got %d body bytes, the server sent %d", first.got, sentBody)
	}
	if len(leaked) > 0 {
		env.Violate("C12/goroutine-leak", sig+":"+leakFrame(leaked[0]), "goroutines of the call remain:\n%s", trimStack(leaked[0]))
	}
	if len(netLeaked) > 0 {
		env.Violate("C12/response-not-closed", sig, "after the call settled and idle connections were closed, %d transport goroutine(s) still hold a connection (the response body was never closed):\n%s", len(netLeaked), trimStack(netLeaked[0]))
	}
	if file != nil && file.Closed == 0 {
		env.Violate("C12/file-not-closed", sig, "upload file never closed")
	}
	// connection reuse: a complete first exchange with reuse enabled must leave the connection reusable
	if s.Second && second.returned && s.Reuse && complete && s.CutAt < 0 && s.Framing != 2 && first.err == nil && second.err == nil && !hitLimit && cancelAt < 0 {
		if ws.dials != 1 {
			env.Violate("C12/not-drained", "wire:second-call-dialled-again", "connection reuse enabled and the first response was complete (reader mode %d read %d of %d bytes), yet the second call needed a new connection (%d dials)", s.Reader, first.got, s.BodyLen, ws.dials)
		} else {
			env.Probe("wire-connection-reused")
		}
	}
	res.FromEnv(env)
	res.Nontrivial = true
	res.Sig = kernel.Mix(res.Sig, kernel.HashString(res.Summary))
	return res
}
