package c12

import (
	"encoding/json"

	"verif.local/sim/kernel"
)

// sweepParams: canonical base scenario + exactly one fault placement.
type sweepParams struct {
	Base  int    `json:"base"`
	Reuse bool   `json:"reuse"`
	Fault string `json:"fault"`
	A     int    `json:"a"`
	B     int    `json:"b"`
}

func base(i int) *scn {
	s := &scn{PayloadErrAt: -1, Method: "POST", TimeoutMS: 2000, AdvanceIn: 5}
	s.T.FailDuringAt = -1
	s.T.Status = 200
	s.T.BodyLen = 120
	s.T.BodyChunk = kernel.ChunkFixed
	s.T.BodyFixed = 50
	s.T.Pull = kernel.ChunkFixed
	s.T.PullFixed = 300
	s.R.Buf = 64
	s.R.Propagate = true
	mk := func(field, name string, n int) fileScn {
		return fileScn{Field: field, Name: name, Len: n, ErrAt: -1, Chunk: kernel.ChunkFixed, Fixed: 128}
	}
	switch i {
	case 0:
		s.Payload = "files"
		s.Files = []fileScn{mk("file", "a.txt", 300)}
	case 1:
		s.Payload = "both"
		s.Fields = 2
		s.Files = []fileScn{mk("file", "a.txt", 40), mk("doc", "b.bin", 600)}
		s.Auth, s.AuthGetBody = 1, 1
	case 2:
		s.Payload = "files"
		s.Files = []fileScn{mk("file", "a.txt", 90), mk("file", "b.txt", 10)}
		s.Auth, s.AuthGetBody = 1, 2
	case 3:
		s.Payload = "reader"
		s.PayloadLen = 200
	case 4:
		s.Payload = "readcloser"
		s.PayloadLen = 200
		s.Auth, s.AuthGetBody = 1, 1
	case 5:
		s.Payload = "value"
		s.PayloadLen = 50
	case 6:
		s.Payload = "form-url"
		s.Fields = 2
	case 7:
		s.Payload = "form-multi"
		s.Fields = 2
		s.Auth = 1
	case 8:
		s.Payload = "none"
		s.Method = "GET"
	}
	return s
}

const nBases = 9

func sweepScenario(sc kernel.Scenario) *scn {
	var p sweepParams
	_ = json.Unmarshal(sc.Params, &p)
	s := base(p.Base)
	s.Reuse = p.Reuse
	switch p.Fault {
	case "none":
	case "source":
		s.Files[p.A].ErrAt = p.B
	case "source-with-data":
		s.Files[p.A].ErrAt = p.B
		s.Files[p.A].WithData = true
	case "payload":
		s.PayloadErrAt = p.A
	case "writer":
		s.WriterFail = p.A
	case "auth":
		s.Auth = 2
		s.AuthFailPos = p.A
		s.AuthGetBody = p.B
	case "url":
		s.BadURL = p.A
	case "t-before":
		s.T.FailBefore = true
	case "t-during":
		s.T.FailDuringAt = p.A
	case "t-after":
		s.T.FailAfter = true
	case "no-response":
		s.T.NoResponse = p.A
	case "body":
		s.T.BodyFault = p.A
		s.T.BodyFaultAt = p.B
	case "body-partial-reader":
		s.T.BodyFault = p.A
		s.T.BodyFaultAt = p.B
		s.R.Mode = 1
		s.R.K = 30
	case "cancel":
		s.ParentKind = p.A
		s.CancelStep = p.B
		s.TimeoutMS = 0
	case "deadline":
		s.ParentKind = p.A
		s.ParentMS = int64(p.B)
		s.AdvanceIn = 2
	case "reader":
		s.R.Mode = p.A
		s.R.K = p.B
	case "zero-then-close":
		s.T.BodyZero = 2
		s.R.Mode = 1
		s.R.K = p.A
	}
	normalise(s)
	return s
}

func (prop) Sweep(tier string) []kernel.Scenario {
	var out []kernel.Scenario
	add := func(p sweepParams) {
		b, _ := json.Marshal(p)
		out = append(out, kernel.Scenario{Name: "sweep", Params: b})
	}
	quick := tier != "thorough"
	for b := 0; b < nBases; b++ {
		s := base(b)
		for _, reuse := range []bool{false, true} {
			if quick && reuse && b > 1 {
				continue
			}
			add(sweepParams{Base: b, Reuse: reuse, Fault: "none"})
			for fi, f := range s.Files {
				step := 1
				if quick {
					step = 37
				}
				for off := 0; off <= f.Len; off += step {
					add(sweepParams{b, reuse, "source", fi, off})
					if !quick || off%2 == 0 {
						add(sweepParams{b, reuse, "source-with-data", fi, off})
					}
				}
				add(sweepParams{b, reuse, "source", fi, f.Len})
			}
			if s.PayloadLen > 0 && s.Payload != "value" {
				step := 1
				if quick {
					step = 41
				}
				for off := 0; off <= s.PayloadLen; off += step {
					add(sweepParams{b, reuse, "payload", off, 0})
				}
			}
			add(sweepParams{b, reuse, "writer", 1, 0})
			add(sweepParams{b, reuse, "writer", 2, 0})
			for pos := 0; pos < 2; pos++ {
				for gb := 0; gb < 3; gb++ {
					add(sweepParams{b, reuse, "auth", pos, gb})
				}
			}
			for u := 1; u <= 3; u++ {
				add(sweepParams{b, reuse, "url", u, 0})
			}
			add(sweepParams{b, reuse, "t-before", 0, 0})
			add(sweepParams{b, reuse, "t-after", 0, 0})
			dstep := 25
			if quick {
				dstep = 400
			}
			for at := 0; at <= 1200; at += dstep {
				add(sweepParams{b, reuse, "t-during", at, 0})
			}
			add(sweepParams{b, reuse, "no-response", 1, 0})
			add(sweepParams{b, reuse, "no-response", 2, 0})
			bstep := 1
			if quick {
				bstep = 29
			}
			for kind := 1; kind <= 3; kind++ {
				for off := 0; off <= s.T.BodyLen; off += bstep {
					add(sweepParams{b, reuse, "body", kind, off})
					add(sweepParams{b, reuse, "body-partial-reader", kind, off})
				}
			}
			cstep := 1
			if quick {
				cstep = 7
			}
			for _, pk := range []int{2, 4} {
				for st := 1; st <= 70; st += cstep {
					add(sweepParams{b, reuse, "cancel", pk, st})
				}
			}
			for _, pk := range []int{1, 3} {
				for _, ms := range []int{1, 2, 1000, 1999, 2000, 2001, 5000} {
					add(sweepParams{b, reuse, "deadline", pk, ms})
				}
			}
			for mode := 0; mode <= 2; mode++ {
				for _, k := range []int{0, 1, 119, 120, 121} {
					add(sweepParams{b, reuse, "reader", mode, k})
				}
			}
			for _, k := range []int{0, 1, 50, 119, 120} {
				add(sweepParams{b, reuse, "zero-then-close", k, 0})
			}
		}
	}
	// wire tier: every byte offset of status line, headers and body × close/stall × framing × reuse
	for framing := 0; framing < 3; framing++ {
		for _, reuse := range []bool{false, true} {
			w := wireScn{Payload: "value", Framing: framing, BodyLen: 40, Status: 200, CutAt: -1, Fragment: 7, Timeout: 300500, Reuse: reuse, Second: true}
			n := len(w.response())
			step := 1
			if quick {
				step = 23
			}
			for off := 0; off <= n; off += step {
				for action := 1; action <= 2; action++ {
					for reader := 0; reader < 3; reader++ {
						if quick && reader == 2 {
							continue
						}
						v := w
						v.CutAt, v.Action, v.Reader, v.ReaderK = off, action, reader, 10
						b, _ := json.Marshal(v)
						out = append(out, kernel.Scenario{Name: "wire", Params: b})
					}
				}
			}
			for reader := 0; reader < 3; reader++ {
				v := w
				v.Reader, v.ReaderK = reader, 10
				b, _ := json.Marshal(v)
				out = append(out, kernel.Scenario{Name: "wire", Params: b})
			}
		}
	}
	return out
}
