// Package c12: client calls always terminate, release what they hold, and
// surface faults.  K1 (synctest bubble, fake clock): one Runtime.Submit per
// run against the simulated transport, with faults placed in upload sources,
// request construction, the transport, the response body, the clock and the
// caller's context.
package c12

import (
	"context"
	"encoding/json"
	"errors"
	"fmt"
	"io"
	"net/http"
	"os"
	"sort"
	"strings"
	"testing"
	"time"

	"github.com/go-openapi/runtime"
	"github.com/go-openapi/runtime/client"
	"github.com/go-openapi/strfmt"

	"verif.local/sim/kernel"
	"verif.local/sim/simhttp"
)

type prop struct{}

func init() { kernel.Register(prop{}) }

func (prop) ID() string     { return "C12" }
func (prop) Engine() string { return "K1" }
func (prop) Level() string  { return "fault_enumeration" }

func (prop) Budget(tier string) int {
	if tier == "thorough" {
		return 1500000
	}
	return 60000
}

func (prop) Describe() kernel.Description {
	return kernel.Description{
		Rule: "Dimensions added with the seed waves: caller contexts cancelled or expired before the call and deadlines later than the default timeout; failing sources with sentinel error values, reported once; a response-body read that fails once while the rest follows; response bodies of 300–700 KB; debug mode; an auth writer that inspects the request; a wire tier over a real http.Transport on net.Pipe. " +
			"one run = one client.Runtime.Submit inside a synctest bubble against the simulated transport; the tape draws payload kind " +
			"(none / JSON value / reader / read-closer / urlencoded or multipart fields / files / both), per-source chunking and one fault " +
			"placement among: upload-source read error at an offset, params-writer error before/after SetFileParam, auth-writer error " +
			"before/after GetBody, unparsable path pattern or base path, invalid method, transport error before/while/after the body, " +
			"response never arriving (stall or reset), response body reset / truncation / stall at an offset, caller context cancelled at " +
			"a scheduling step or carrying a deadline, request timeout 0/short/default, connection reuse on/off — and the schedule (which " +
			"parked operation runs next, when the fake clock jumps to just before/at/after the deadline). thorough adds the systematic " +
			"sweep: for each canonical scenario every single-fault placement (every byte offset of every upload source, every scheduling " +
			"step for cancel, every response-body offset × reset/stall/truncate, every construction stage). distinct = distinct history " +
			"signature (hash of every released operation, its result and every clock jump); non-trivial = ≥2 operations were parked together " +
			"or ≥1 fault fired.",
		Real: []string{"client.Runtime.Submit / createHttpRequest", "client.request.buildHTTP incl. multipart writer goroutine + io.Pipe",
			"client.keepAliveTransport / drainingReadCloser", "net/http.Client.Do (redirect/cancel plumbing)", "mime/multipart.Writer", "context deadlines on the synctest fake clock"},
		Stubs: []string{"network: SimTransport (http.RoundTripper) with scripted response body stream", "upload sources (scripted streams)",
			"params writer, auth writer, response reader (scripted)"},
		Assumptions: []string{
			"fake time does not pass while request construction is waiting for an upload source (a slow disk before the deadline exists is not among the endings the property lists)",
			"the simulated server consumes the whole request body before answering, so a source error always reaches the transport",
			"stalls are generated only when some deadline or a cancellation exists (blocking forever is legitimate otherwise)",
			"3xx answers are not generated (redirect following is net/http's)",
			"a read-closer *payload* that was never sent is not counted as an unclosed upload file; only files given to SetFileParam are",
			"faults met only by the drain inside Close are not fatal by design of the draining closer",
		},
	}
}

// ---------------------------------------------------------------------------

type fileScn struct {
	Field     string `json:"field"`
	Name      string `json:"name"`
	Len       int    `json:"len"`
	ErrAt     int    `json:"err_at"` // -1 none
	WithData  bool   `json:"with_data"`
	Chunk     int    `json:"chunk"`
	Fixed     int    `json:"fixed"`
	First     int    `json:"first"`
	Zero      int    `json:"zero"`
	HasCT     bool   `json:"has_ct"`
	CloseFail bool   `json:"close_fail"`
}

type scn struct {
	Payload      string    `json:"payload"` // none value reader readcloser form-url form-multi files both
	PayloadLen   int       `json:"payload_len"`
	PayloadErrAt int       `json:"payload_err_at"`
	Files        []fileScn `json:"files"`
	Fields       int       `json:"fields"`

	WriterFail  int    `json:"writer_fail"` // 0 none 1 before SetFileParam 2 after
	Auth        int    `json:"auth"`        // 0 none 1 ok 2 fails
	AuthGetBody int    `json:"auth_get_body"`
	AuthFailPos int    `json:"auth_fail_pos"` // 0 before GetBody, 1 after
	ReuseLate   int    `json:"reuse_late"`    // how connection reuse meets the http client: 0 enabled on a fresh Runtime, 1 Runtime built by NewWithClient, 2 enabled after a first call
	AuthInspect bool   `json:"auth_inspect"`  // the auth writer looks at everything the request offers first
	BadURL      int    `json:"bad_url"`       // 0 none 1 pattern 2 base path 3 method
	Method      string `json:"method"`

	TimeoutMS  int64 `json:"timeout_ms"`  // 0 = no request timeout; -1 = leave default (30s)
	ParentKind int   `json:"parent_kind"` // 0 none 1 op ctx deadline 2 op ctx cancelled at step 3 runtime ctx deadline 4 runtime ctx cancel
	ParentMS   int64 `json:"parent_ms"`   // deadline offset
	CancelStep int   `json:"cancel_step"` // scheduling step
	Reuse      bool  `json:"reuse"`
	Debug      bool  `json:"debug"`        // Runtime.Debug: request and response are dumped through net/http/httputil
	SrcErrKind int   `json:"src_err_kind"` // the error value a failing source returns: 0 private, 1 io.ErrUnexpectedEOF, 2 wraps io.EOF, 3 io.ErrClosedPipe, 4 wraps context.Canceled, 5 wraps os.ErrDeadlineExceeded
	SrcErrOnce bool  `json:"src_err_once"` // the failing source reports its error once, io.EOF afterwards
	AdvanceIn  int   `json:"advance_in"`

	T struct {
		FailBefore   bool `json:"fail_before"`
		FailDuringAt int  `json:"fail_during_at"`
		FailAfter    bool `json:"fail_after"`
		NoResponse   int  `json:"no_response"`
		Pull         int  `json:"pull"`
		PullFixed    int  `json:"pull_fixed"`
		Status       int  `json:"status"`
		BodyLen      int  `json:"body_len"`
		BodyFault    int  `json:"body_fault"` // 0 none 1 reset 2 truncate 3 stall 4 one read fails (timeout), the rest of the body follows
		BodyFaultAt  int  `json:"body_fault_at"`
		BodyWithData bool `json:"body_with_data"`
		BodyChunk    int  `json:"body_chunk"`
		BodyFixed    int  `json:"body_fixed"`
		BodyZero     int  `json:"body_zero"`
		DeclareLen   bool `json:"declare_len"`
		CloseFail    bool `json:"close_fail"`
	} `json:"transport"`

	R struct {
		Mode      int  `json:"mode"` // 0 read all 1 read k bytes 2 read none 3 io.Copy into a sink that fails after k bytes
		K         int  `json:"k"`
		Buf       int  `json:"buf"`
		Close     bool `json:"close"`
		Propagate bool `json:"propagate"`
		Fail      bool `json:"fail"`
	} `json:"reader"`
}

func (s *scn) String() string {
	b, _ := json.Marshal(s)
	return string(b)
}

func (s *scn) hasDeadline() bool {
	return s.TimeoutMS != 0 || s.ParentKind != 0
}

func genFile(t *kernel.Tape, i int) fileScn {
	f := fileScn{Field: []string{"file", "file", "doc"}[t.Choose(3, "field")], Name: fmt.Sprintf("dir/up%d.bin", i), ErrAt: -1}
	switch t.Choose(4, "flen") {
	case 0:
		f.Len = t.Choose(4, "flen-tiny")
	case 1:
		f.Len = 500 + t.Choose(30, "flen-sniff")
	case 2:
		f.Len = t.Choose(3000, "flen")
	default:
		f.Len = t.Choose(200, "flen-small")
	}
	f.Chunk = t.Choose(4, "fchunk")
	f.Fixed = 1 + t.Choose(600, "ffixed")
	if t.Bool(3, "ffirst") {
		f.First = 1 + t.Choose(600, "ffirst-n")
	}
	f.Zero = t.Choose(3, "fzero")
	f.WithData = t.Bool(2, "fwithdata")
	f.HasCT = t.Bool(4, "fhasct")
	return f
}

func generate(t *kernel.Tape) *scn {
	s := &scn{PayloadErrAt: -1, Method: "POST", TimeoutMS: -1}
	s.T.FailDuringAt = -1
	s.T.Status = []int{200, 200, 201, 204, 400, 404, 500}[t.Choose(7, "status")]
	s.Payload = []string{"files", "both", "none", "value", "reader", "readcloser", "form-url", "form-multi"}[t.Choose(8, "payload")]
	switch s.Payload {
	case "reader", "readcloser", "value":
		s.PayloadLen = t.Choose(2000, "plen")
	case "files", "both":
		n := 1 + t.Choose(3, "nfiles")
		for i := 0; i < n; i++ {
			s.Files = append(s.Files, genFile(t, i))
		}
	}
	if s.Payload == "both" || s.Payload == "form-url" || s.Payload == "form-multi" {
		s.Fields = 1 + t.Choose(3, "nfields")
	}
	// timeouts and parents
	switch t.Choose(4, "timeout") {
	case 0:
		s.TimeoutMS = -1
	case 1:
		s.TimeoutMS = 0
	default:
		s.TimeoutMS = int64(1 + t.Choose(5000, "timeout-ms"))
	}
	s.ParentKind = t.Weighted("parent", 4, 2, 2, 1, 1)
	s.ParentMS = int64(1 + t.Choose(5000, "parent-ms"))
	switch t.Weighted("parent-deadline-class", 6, 1, 2) {
	case 1:
		s.ParentMS = 0 // the caller's deadline has already passed when Submit is called
	case 2:
		s.ParentMS = 30000 + int64(t.Choose(60000, "late-parent-ms")) // later than the default request timeout
	}
	s.CancelStep = t.Choose(41, "cancel-step") // 0: the caller's context is already cancelled when Submit is called
	s.Reuse = t.Bool(2, "reuse")
	s.Debug = t.Bool(8, "debug-mode")
	s.AuthInspect = t.Bool(3, "auth-writer-inspects-the-request")
	s.ReuseLate = t.Weighted("reuse-meets-the-client", 3, 1, 1)
	s.SrcErrKind = t.Weighted("source-error-value", 3, 1, 1, 1, 1, 1)
	s.SrcErrOnce = t.Bool(3, "source-error-reported-once")
	s.AdvanceIn = []int{0, 6, 12, 3}[t.Choose(4, "advance-in")]
	// transport/body shape (no faults yet)
	s.T.Pull = t.Choose(4, "pull")
	s.T.PullFixed = 1 + t.Choose(700, "pullfixed")
	s.T.BodyLen = []int{0, 1, 20, 300, 5000}[t.Choose(5, "blen")]
	if s.T.Status == 204 {
		s.T.BodyLen = 0
	}
	s.T.BodyChunk = t.Choose(4, "bchunk")
	s.T.BodyFixed = 1 + t.Choose(300, "bfixed")
	if s.T.Status != 204 && t.Bool(12, "large-response-body") {
		// larger than any buffer or cap a drain might use; delivered in large pieces so the run stays short
		s.T.BodyLen = 300000 + t.Choose(400000, "large-blen")
		s.T.BodyChunk = kernel.ChunkFixed
		s.T.BodyFixed = 20000 + t.Choose(50000, "large-bfixed")
	}
	s.T.BodyZero = t.Choose(3, "bzero")
	s.T.BodyWithData = t.Bool(2, "bwithdata")
	s.T.DeclareLen = t.Bool(2, "declare")
	s.R.Mode = t.Weighted("reader-mode", 4, 2, 1, 1)
	s.R.K = t.Choose(s.T.BodyLen+2, "reader-k")
	s.R.Buf = []int{512, 1, 7, 4096}[t.Choose(4, "reader-buf")]
	if s.T.BodyLen > 100000 {
		s.R.Buf = 32768
	}
	s.R.Close = t.Bool(2, "reader-close")
	s.R.Propagate = !t.Bool(4, "reader-swallow")
	s.R.Fail = t.Bool(8, "reader-fail")
	if s.R.Mode == 3 {
		// the consumer-side fault: the reader copies the body into a sink of its own that gives up, and says so
		s.R.Fail = true
	}
	s.Auth = t.Weighted("auth", 3, 2)
	s.AuthGetBody = t.Weighted("getbody", 2, 2, 1)
	// exactly zero, one or two fault placements
	nf := t.Weighted("nfaults", 2, 6, 2)
	for i := 0; i < nf; i++ {
		placeFault(t, s)
	}
	normalise(s)
	return s
}

func placeFault(t *kernel.Tape, s *scn) {
	kinds := []string{"source", "writer", "auth", "url", "t-before", "t-during", "t-after", "no-response", "body", "close-fail", "payload-src"}
	switch kinds[t.Choose(len(kinds), "fault-kind")] {
	case "source":
		if len(s.Files) > 0 {
			f := &s.Files[t.Choose(len(s.Files), "fault-file")]
			f.ErrAt = t.Choose(f.Len+1, "fault-off")
			if f.Len >= 513 && t.Bool(2, "fault-at-the-sniffing-window-edge") {
				f.ErrAt = []int{511, 512, 513}[t.Choose(3, "window-edge")]
				// the variants that matter at an edge: the error rides along with the last byte before it, and is said once
				f.WithData = t.Bool(2, "edge-error-with-data")
				f.HasCT = false
				if t.Bool(2, "edge-error-said-once") {
					s.SrcErrOnce = true
				}
			}
		}
	case "payload-src":
		if s.Payload == "reader" || s.Payload == "readcloser" {
			s.PayloadErrAt = t.Choose(s.PayloadLen+1, "fault-off")
		}
	case "writer":
		s.WriterFail = 1 + t.Choose(2, "writer-fail")
	case "auth":
		s.Auth = 2
		s.AuthFailPos = t.Choose(2, "auth-fail-pos")
	case "url":
		s.BadURL = 1 + t.Choose(3, "bad-url")
	case "t-before":
		s.T.FailBefore = true
	case "t-during":
		s.T.FailDuringAt = t.Choose(1500, "t-during-at")
	case "t-after":
		s.T.FailAfter = true
	case "no-response":
		s.T.NoResponse = 1 + t.Choose(2, "no-response")
	case "body":
		s.T.BodyFault = 1 + t.Choose(4, "body-fault")
		s.T.BodyFaultAt = t.Choose(s.T.BodyLen+1, "body-fault-at")
	case "close-fail":
		if len(s.Files) > 0 && t.Bool(2, "which-close") {
			s.Files[t.Choose(len(s.Files), "fault-file")].CloseFail = true
		} else {
			s.T.CloseFail = true
		}
	}
}

// normalise removes combinations that are legitimately allowed to block forever.
func normalise(s *scn) {
	stall := s.T.NoResponse == 1 || s.T.BodyFault == 3
	if stall && !s.hasDeadline() {
		s.TimeoutMS = 1500
	}
	if s.ParentKind == 2 || s.ParentKind == 4 {
		// a cancel step may never be reached; make sure a stall still ends
		if stall && s.TimeoutMS == 0 {
			s.TimeoutMS = 2500
		}
	}
}

// ---------------------------------------------------------------------------

type world struct {
	env     *kernel.Env
	k       *kernel.K1
	s       *scn
	files   []*simhttp.UploadFile
	handed  []*simhttp.UploadFile // those that reached SetFileParam
	payload *kernel.Stream
	tr      *simhttp.SimTransport

	sourceErrDelivered func() bool
	readerSawErr       error
	readerRan          bool
	readerValue        string
	getBodies          [][]byte
	constructionErr    bool
}

func content(n int, salt byte) []byte {
	b := make([]byte, n)
	for i := range b {
		b[i] = byte('A' + (i*5+int(salt)+i/97)%23)
	}
	return b
}

// srcErr is the error value a failing upload source returns.
func (w *world) srcErr(what string) error {
	switch w.s.SrcErrKind {
	case 1:
		return io.ErrUnexpectedEOF
	case 2:
		return fmt.Errorf("%s: %w", what, io.EOF)
	case 3:
		return io.ErrClosedPipe // the source is itself the reading end of a pipe whose writer went away
	case 4:
		return fmt.Errorf("%s: %w", what, context.Canceled) // the source's own producer was cancelled
	case 5:
		return fmt.Errorf("%s: %w", what, os.ErrDeadlineExceeded)
	}
	return &kernel.InjectedError{What: what}
}

func (w *world) mkFile(i int, f fileScn) *simhttp.UploadFile {
	st := kernel.NewStream(w.env, fmt.Sprintf("file%d", i), content(f.Len, byte(i)))
	st.Tag = "source"
	if f.ErrAt >= 0 {
		st.Data = st.Data[:f.ErrAt]
		st.Term = w.srcErr(fmt.Sprintf("file%d read error at %d", i, f.ErrAt))
		st.ErrOnce = w.s.SrcErrOnce
	}
	st.TermWithData = f.WithData
	st.ChunkMode = f.Chunk
	st.FixedChunk = f.Fixed
	st.FirstChunk = f.First
	st.ZeroReads = f.Zero
	if f.CloseFail {
		st.CloseErr = &kernel.InjectedError{What: "close failed"}
	}
	return &simhttp.UploadFile{Stream: st, FileName: f.Name}
}

func (w *world) WriteToRequest(req runtime.ClientRequest, _ strfmt.Registry) error {
	s := w.s
	_ = req.SetPathParam("id", "42")
	_ = req.SetQueryParam("q", "x y")
	if s.TimeoutMS >= 0 {
		_ = req.SetTimeout(time.Duration(s.TimeoutMS) * time.Millisecond)
	}
	if s.WriterFail == 1 {
		w.env.Fault("params-writer-error-before-files")
		w.constructionErr = true
		return &kernel.InjectedError{What: "params writer failed (before SetFileParam)"}
	}
	for i := 0; i < s.Fields; i++ {
		_ = req.SetFormParam(fmt.Sprintf("f%d", i), fmt.Sprintf("v%d a&b=c", i))
	}
	switch s.Payload {
	case "value":
		_ = req.SetBodyParam(map[string]any{"blob": string(content(s.PayloadLen, 3))})
	case "reader":
		_ = req.SetBodyParam(kernel.ReaderOnly{S: w.payload})
	case "readcloser":
		_ = req.SetBodyParam(io.ReadCloser(w.payload))
	case "files", "both":
		byField := map[string][]runtime.NamedReadCloser{}
		var order []string
		for i, f := range s.Files {
			if _, ok := byField[f.Field]; !ok {
				order = append(order, f.Field)
			}
			var nrc runtime.NamedReadCloser = w.files[i]
			if f.HasCT {
				nrc = &simhttp.UploadFileCT{UploadFile: w.files[i], CT: "text/x-sim"}
			}
			byField[f.Field] = append(byField[f.Field], nrc)
		}
		for _, fld := range order {
			if err := req.SetFileParam(fld, byField[fld]...); err != nil {
				return err
			}
		}
		w.handed = append(w.handed, w.files...)
	}
	if s.WriterFail == 2 {
		w.env.Fault("params-writer-error-after-files")
		w.constructionErr = true
		return &kernel.InjectedError{What: "params writer failed (after SetFileParam)"}
	}
	return nil
}

func (w *world) AuthenticateRequest(req runtime.ClientRequest, _ strfmt.Registry) error {
	s := w.s
	if s.Auth == 2 && s.AuthFailPos == 0 {
		w.env.Fault("auth-error-before-getbody")
		w.constructionErr = true
		return &kernel.InjectedError{What: "auth writer failed"}
	}
	if s.AuthInspect {
		simhttp.Inspect(req)
	}
	for i := 0; i < s.AuthGetBody; i++ {
		b := req.GetBody()
		w.getBodies = append(w.getBodies, append([]byte(nil), b...))
		w.env.Probe(fmt.Sprintf("getbody-call-%d", i+1))
	}
	_ = req.SetHeaderParam("Authorization", "Bearer sim")
	if s.Auth == 2 {
		w.env.Fault("auth-error-after-getbody")
		w.constructionErr = true
		return &kernel.InjectedError{What: "auth writer failed"}
	}
	return nil
}

func (w *world) ReadResponse(resp runtime.ClientResponse, _ runtime.Consumer) (any, error) {
	w.readerRan = true
	r := &w.s.R
	body := resp.Body()
	var got []byte
	buf := make([]byte, r.Buf)
	limit := -1
	switch r.Mode {
	case 1:
		limit = r.K
	case 2:
		limit = 0
	}
	if r.Mode == 3 {
		sink := &failingSink{left: r.K}
		if _, err := io.Copy(sink, body); err != nil && err != errSinkFull {
			w.readerSawErr = err
		}
		if sink.failed {
			w.env.Fault("reader-sink-fails-midway")
		}
		got, limit = sink.got, 0
	}
	for limit < 0 || len(got) < limit {
		b := buf
		if limit >= 0 && limit-len(got) < len(b) {
			b = b[:limit-len(got)]
		}
		n, err := body.Read(b)
		got = append(got, b[:n]...)
		if err == io.EOF {
			break
		}
		if err != nil {
			w.readerSawErr = err
			break
		}
	}
	if r.Close {
		_ = body.Close()
	}
	if w.readerSawErr != nil && r.Propagate {
		return nil, fmt.Errorf("reading response: %w", w.readerSawErr)
	}
	if r.Fail {
		return nil, &kernel.InjectedError{What: "response reader rejects the response"}
	}
	w.readerValue = fmt.Sprintf("%d:%d", resp.Code(), len(got))
	return w.readerValue, nil
}

func (prop) Run(t *testing.T, tape *kernel.Tape, sc kernel.Scenario) *kernel.Result {
	env := kernel.NewEnv(tape)
	res := &kernel.Result{}
	var s *scn
	switch {
	case sc.Name == "wire":
		var ws wireScn
		_ = json.Unmarshal(sc.Params, &ws)
		return runWire(t, tape, &ws)
	case sc.Name == "sweep":
		s = sweepScenario(sc)
	default:
		if tape.Choose(5, "tier") == 4 {
			return runWire(t, tape, genWire(tape))
		}
		s = generate(tape)
	}
	res.Summary = s.String()
	w := &world{env: env, s: s}
	kernel.DrawOrder(tape)
	defer kernel.UninstallOrder()

	var (
		submitRet   any
		submitErr   error
		submitPanic string
		returned    bool
		returnAt    time.Duration
		cancelAt    time.Duration = -1
		parentDL    time.Duration = -1
		leaked      []string
		entryAt     time.Duration
		startTime   time.Time
	)
	deadlock := kernel.RunBubble(t, env, func(k *kernel.K1) {
		w.k = k
		startTime = k.Start()
		k.AdvanceOneIn = s.AdvanceIn
		k.MaxSteps = 60000
		for i, f := range s.Files {
			w.files = append(w.files, w.mkFile(i, f))
		}
		if s.Payload == "reader" || s.Payload == "readcloser" {
			w.payload = kernel.NewStream(env, "payload", content(s.PayloadLen, 9))
			w.payload.Tag = "source"
			if s.PayloadErrAt >= 0 {
				w.payload.Data = w.payload.Data[:s.PayloadErrAt]
				w.payload.Term = w.srcErr(fmt.Sprintf("payload read error at %d", s.PayloadErrAt))
				w.payload.ErrOnce = s.SrcErrOnce
			}
			w.payload.ChunkMode = s.T.Pull
			w.payload.FixedChunk = s.T.PullFixed
		}
		tr := &simhttp.SimTransport{Env: env, Name: "net", Now: k.Now}
		w.tr = tr
		tr.PlanFor = func(int, *http.Request) *simhttp.Plan {
			p := simhttp.DefaultPlan()
			p.FailBefore, p.FailDuringAt, p.FailAfter, p.NoResponse = s.T.FailBefore, s.T.FailDuringAt, s.T.FailAfter, s.T.NoResponse
			p.PullMode, p.PullFixed = s.T.Pull, s.T.PullFixed
			p.Status = s.T.Status
			p.Header.Set("Content-Type", "application/json")
			p.Body = content(s.T.BodyLen, 17)
			p.BodyChunkMode, p.BodyFixed, p.BodyZeroReads, p.BodyWithData = s.T.BodyChunk, s.T.BodyFixed, s.T.BodyZero, s.T.BodyWithData
			if s.T.DeclareLen {
				p.ContentLength = int64(s.T.BodyLen)
			}
			switch s.T.BodyFault {
			case 1:
				p.Body = p.Body[:s.T.BodyFaultAt]
				p.BodyTerm = &kernel.InjectedError{What: "connection reset while reading the response body"}
			case 2:
				p.Body = p.Body[:s.T.BodyFaultAt]
				p.BodyTerm = io.ErrUnexpectedEOF
			case 3:
				p.BodyStallAt = s.T.BodyFaultAt
			case 4:
				p.BodyTransientAt = s.T.BodyFaultAt
			}
			if s.T.CloseFail {
				p.BodyCloseErr = &kernel.InjectedError{What: "closing the response body failed"}
			}
			return p
		}
		k.AllowAdvance = func() bool { return tr.InFlight > 0 }

		rt := client.New("sim.local", "/base", []string{"http"})
		if s.ReuseLate == 1 {
			// the http client is the caller's own, handed to the constructor
			rt = client.NewWithClient("sim.local", "/base", []string{"http"}, &http.Client{Transport: tr})
		}
		if s.BadURL == 2 {
			rt.BasePath = "/base%zz"
		}
		rt.Transport = tr
		if s.Reuse && s.ReuseLate == 2 {
			// connection reuse is switched on after the Runtime has already served a call
			_, _ = rt.Submit(&runtime.ClientOperation{ID: "warm-up", Method: "GET", PathPattern: "/warm-up", Schemes: []string{"http"},
				Client: &http.Client{Transport: warmUpTransport{}}, // (its own transport: the scripted one is kept for the measured call)
				Params: runtime.ClientRequestWriterFunc(func(runtime.ClientRequest, strfmt.Registry) error { return nil }),
				Reader: runtime.ClientResponseReaderFunc(func(runtime.ClientResponse, runtime.Consumer) (interface{}, error) { return nil, nil })})
		}
		if s.Reuse {
			rt.EnableConnectionReuse()
		}
		if s.Debug {
			rt.Debug = true
			rt.SetLogger(quietLogger{})
			env.Fault("debug-mode")
		}
		op := &runtime.ClientOperation{
			ID: "upload", Method: s.Method, PathPattern: "/things/{id}",
			ProducesMediaTypes: []string{"application/json"},
			Schemes:            []string{"http"},
			Params:             w, Reader: w,
		}
		switch s.BadURL {
		case 1:
			op.PathPattern = "/things/{id}/%zz"
		case 3:
			op.Method = "BAD METHOD"
		}
		if s.BadURL != 0 {
			env.Fault(fmt.Sprintf("bad-url-%d", s.BadURL))
			w.constructionErr = true
		}
		switch s.Payload {
		case "files", "both", "form-multi":
			op.ConsumesMediaTypes = []string{"multipart/form-data"}
		case "form-url":
			op.ConsumesMediaTypes = []string{"application/x-www-form-urlencoded"}
		case "reader", "readcloser":
			op.ConsumesMediaTypes = []string{"application/octet-stream"}
		default:
			op.ConsumesMediaTypes = []string{"application/json"}
		}
		if s.Auth != 0 {
			op.AuthInfo = w
		}
		var cancelParent context.CancelFunc
		mkParent := func() context.Context {
			switch s.ParentKind {
			case 1, 3:
				parentDL = k.Now() + time.Duration(s.ParentMS)*time.Millisecond
				ctx, c := context.WithTimeout(context.Background(), time.Duration(s.ParentMS)*time.Millisecond)
				cancelParent = c
				k.AddInstant(parentDL)
				return ctx
			case 2, 4:
				ctx, c := context.WithCancel(context.Background())
				cancelParent = c
				return ctx
			}
			return nil
		}
		if pc := mkParent(); pc != nil {
			if s.ParentKind <= 2 {
				op.Context = pc
			} else {
				rt.Context = pc
			}
		}
		if s.ParentKind == 2 || s.ParentKind == 4 {
			k.StepHook = func(step int) bool {
				if step == s.CancelStep && cancelAt < 0 && !returned {
					cancelAt = k.Now()
					env.Fault("parent-cancel")
					cancelParent()
					return true
				}
				return false
			}
		}
		if s.TimeoutMS > 0 {
			k.AddInstant(time.Duration(s.TimeoutMS) * time.Millisecond)
		} else if s.TimeoutMS < 0 {
			k.AddInstant(client.DefaultTimeout)
		}
		if (s.ParentKind == 2 || s.ParentKind == 4) && s.CancelStep == 0 {
			cancelAt = k.Now()
			env.Fault("parent-cancelled-before-the-call")
			cancelParent()
		}
		if (s.ParentKind == 1 || s.ParentKind == 3) && s.ParentMS == 0 {
			env.Fault("parent-deadline-passed-before-the-call")
		}
		k.Go("caller", func() {
			entryAt = k.Now()
			submitPanic = kernel.Catch(func() { submitRet, submitErr = rt.Submit(op) })
			returnAt = k.Now()
			returned = true
		})
		k.Run()
		env.Log("caller", "Submit returned=%v err=%v at %v", returned, submitErr, returnAt)
		if !k.Stuck && !k.Overrun {
			k.SettleAll()
		}
		if cancelParent != nil {
			cancelParent()
		}
		leaked = kernel.LeakedGoroutines("github.com/go-openapi/runtime/")
		if k.Overrun {
			res.Infra = "step budget exceeded"
		}
		if k.Stuck {
			env.Violate("C12/stuck", faultSignature(s, env), "every task is blocked, nothing is parked and no timer will fire; Submit returned=%v", returned)
		}
	})
	_ = deadlock

	// ---------------- oracles ----------------
	faultSig := faultSignature(s, env)
	if submitPanic != "" {
		env.Violate("C12/panic", faultSig, "Submit panicked: %s", submitPanic)
	}
	if !returned && res.Infra == "" {
		env.Violate("C12/no-return", faultSig, "Submit never returned")
	}
	if returned && submitPanic == "" {
		// 1. in time
		limit := time.Duration(-1)
		var exDL time.Duration = -1
		if len(w.tr.Exchanges) > 0 {
			ex := w.tr.Exchanges[0]
			// the deadline the transport saw must be exactly the effective one
			want := time.Duration(-1)
			to := time.Duration(s.TimeoutMS) * time.Millisecond
			if s.TimeoutMS < 0 {
				to = client.DefaultTimeout
			}
			if to > 0 {
				want = entryAt + to
			}
			if parentDL >= 0 && (want < 0 || parentDL < want) {
				want = parentDL
			}
			if ex.HasDeadline {
				exDL = ex.Deadline.Sub(startTime)
			}
			if (want >= 0) != ex.HasDeadline || (want >= 0 && exDL != want) {
				env.Violate("C12/deadline-wrong", fmt.Sprintf("timeout=%s:parent=%d", timeoutClass(s), s.ParentKind),
					"request context deadline seen by the transport: has=%v at %v; effective deadline should be %v (entry %v, timeout %v, parent deadline %v)",
					ex.HasDeadline, exDL, want, entryAt, to, parentDL)
			}
			limit = want
		} else if parentDL >= 0 {
			limit = parentDL
		}
		if cancelAt >= 0 && (limit < 0 || cancelAt < limit) {
			if returnAt > cancelAt {
				env.Violate("C12/late-return", "after-cancel:"+faultSig, "caller context cancelled at %v but Submit returned at %v", cancelAt, returnAt)
			}
		} else if limit >= 0 && returnAt > limit {
			env.Violate("C12/late-return", "after-deadline:"+faultSig, "effective deadline %v but Submit returned at %v", limit, returnAt)
		}
		// 2. error unless complete
		fatal := ""
		switch {
		case w.constructionErr:
			fatal = "construction error"
		case w.sourceErr():
			fatal = "upload source error delivered"
		case len(w.tr.Exchanges) > 0 && w.tr.Exchanges[0].Err != nil:
			fatal = "transport error: " + w.tr.Exchanges[0].Err.Error()
		case w.readerSawErr != nil && s.R.Propagate:
			fatal = "response body error seen by the reader"
		case s.Debug && len(w.tr.Exchanges) > 0 && w.tr.Exchanges[0].Resp != nil && debugDumpFault(w.tr.Exchanges[0].Resp):
			// in debug mode the library itself reads the whole body (httputil.DumpResponse) before the reader runs
			fatal = "response body fault met by the debug dump"
		case s.R.Fail && w.readerRan && !(w.readerSawErr != nil && s.R.Propagate):
			fatal = "reader rejected"
		}
		if fatal != "" && submitErr == nil {
			env.Violate("C12/fault-swallowed", faultSig, "%s, yet Submit reported success (%v)", fatal, submitRet)
		}
		if fatal == "" && cancelAt < 0 && (limit < 0 || returnAt < limit) {
			if submitErr != nil {
				env.Violate("C12/spurious-error", faultSig, "no fault was delivered, no deadline hit, yet Submit failed: %v", submitErr)
			} else if submitRet != w.readerValue {
				env.Violate("C12/wrong-result", faultSig, "Submit returned %v, the reader returned %q", submitRet, w.readerValue)
			}
		}
		if submitErr == nil && w.sourceErr() {
			env.Violate("C12/failed-upload-reported-ok", faultSig, "an upload source failed and the request was reported successful")
		}
	}
	if res.Infra == "" && !hasClass(env, "C12/stuck") {
		// 3. files closed
		for i, f := range w.handed {
			if f.Closed == 0 {
				env.Violate("C12/file-not-closed", faultSig, "upload file %d (%s) handed to SetFileParam was never closed (read %d of %d bytes)", i, f.FileName, f.Pos, len(f.Data))
				break
			}
		}
		// 4. response body closed, drained when promised
		for _, ex := range w.tr.Exchanges {
			if ex.Resp == nil {
				continue
			}
			if ex.Resp.Closed == 0 {
				env.Violate("C12/response-not-closed", faultSig, "response body was never closed")
			} else if s.Reuse && !ex.Resp.TermBeforeClose && !ex.Resp.CtxErrBeforeClose && !(ex.Resp.TransientDelivered && w.readerSawErr == nil) {
				// (a drain that itself runs into a read error has done what it can: only a failure the reader met leaves the rest to the drain)
				env.Violate("C12/not-drained", drainSig(s, ex.Resp), "connection reuse enabled, end of body not yet seen by a read, but Close reached the stream with %d of %d bytes unread and no terminal condition delivered",
					len(ex.Resp.Data)-ex.Resp.PosAtFirstClose, len(ex.Resp.Data))
			}
			if s.Reuse && ex.Resp.Closed > 0 && ex.Resp.TermBeforeClose && w.readerRan && s.R.Mode != 0 {
				env.Probe("drained-by-close")
			}
		}
		// 5. goroutines
		if len(leaked) > 0 {
			env.Violate("C12/goroutine-leak", faultSig+":"+leakFrame(leaked[0]), "%d goroutine(s) started by the call remain after it settled:\n%s", len(leaked), trimStack(leaked[0]))
		}
	}
	if returned && submitErr == nil && w.readerRan {
		env.Probe("success")
	}
	res.FromEnv(env)
	return res
}

// failingSink accepts left bytes and then fails every write: a full disk under the caller's own destination.
type failingSink struct {
	left   int
	got    []byte
	failed bool
}

var errSinkFull = &kernel.InjectedError{What: "the reader's own sink is full"}

func (f *failingSink) Write(p []byte) (int, error) {
	if len(p) > f.left {
		n := f.left
		f.got = append(f.got, p[:n]...)
		f.left = 0
		f.failed = true
		return n, errSinkFull
	}
	f.got = append(f.got, p...)
	f.left -= len(p)
	return len(p), nil
}

func debugDumpFault(b *kernel.Stream) bool {
	return (b.TermDelivered && b.Term != nil) || b.TransientDelivered || b.CtxErrDelivered || (b.CloseErr != nil && b.Closed > 0)
}

type quietLogger struct{}

func (quietLogger) Printf(string, ...interface{}) {}
func (quietLogger) Debugf(string, ...interface{}) {}

func (w *world) sourceErr() bool {
	for _, f := range w.files {
		if f.TermDelivered && f.Term != nil {
			return true
		}
	}
	if w.payload != nil && w.payload.TermDelivered && w.payload.Term != nil {
		return true
	}
	return false
}

func hasClass(e *kernel.Env, class string) bool {
	for _, v := range e.Viol {
		if v.Class == class {
			return true
		}
	}
	return false
}

func timeoutClass(s *scn) string {
	switch {
	case s.TimeoutMS < 0:
		return "default"
	case s.TimeoutMS == 0:
		return "none"
	}
	return "set"
}

// faultSignature names what was actually injected in this run (the minimal
// facts that identify a failure): payload class + the fired fatal fault kinds.
func faultSignature(s *scn, e *kernel.Env) string {
	var p []string
	if s.Payload == "files" || s.Payload == "both" || s.Payload == "form-multi" {
		p = append(p, "multipart")
	} else {
		p = append(p, s.Payload)
	}
	var kinds []string
	for k := range e.Faults {
		switch k {
		case "short-read", "zero-length-read", "data+terminal", "clock-advance", "close-error":
			continue
		}
		kinds = append(kinds, k)
	}
	sort.Strings(kinds)
	return strings.Join(append(p, kinds...), "+")
}

func drainSig(s *scn, b *kernel.Stream) string {
	if b.ZeroReadDelivered {
		return "after-zero-length-read"
	}
	return "other"
}

func leakFrame(stack string) string {
	for _, l := range strings.Split(stack, "\n") {
		if strings.HasPrefix(l, "github.com/go-openapi/runtime/") {
			l = strings.TrimPrefix(l, "github.com/go-openapi/runtime/")
			if i := strings.Index(l, "("); i > 0 && strings.HasSuffix(l, ")") {
				// strip argument list
				if j := strings.LastIndex(l, "("); j > 0 {
					l = l[:j]
				}
			}
			return l
		}
	}
	return "?"
}

func trimStack(s string) string {
	lines := strings.Split(s, "\n")
	if len(lines) > 14 {
		lines = lines[:14]
	}
	return strings.Join(lines, "\n")
}

var _ = errors.New

// warmUpTransport answers the warm-up call (204, no body).
type warmUpTransport struct{}

func (warmUpTransport) RoundTrip(r *http.Request) (*http.Response, error) {
	return &http.Response{StatusCode: 204, Status: "204 No Content", Header: http.Header{}, Body: http.NoBody, Request: r, Proto: "HTTP/1.1", ProtoMajor: 1, ProtoMinor: 1}, nil
}
