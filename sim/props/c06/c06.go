// Package c06: a body is decoded only by the consumer of an admitted media
// type, else 415 — on both binding entry points.  SEQ driver.  The simulator
// owns how "the request carries a body" is signalled: Content-Length, chunked
// transfer or neither (produced by net/http's own request parser from wire
// bytes) over a scripted body stream (empty, zero-length reads before the
// first byte, first byte arriving with EOF, error before or after it).
package c06

import (
	"bufio"
	"context"
	"fmt"
	"mime"
	"net/http"
	"sort"
	"strings"
	"testing"

	"github.com/go-openapi/errors"
	"github.com/go-openapi/runtime"
	"github.com/go-openapi/runtime/middleware"

	"verif.local/sim/kernel"
	"verif.local/sim/simapi"
)

type prop struct{}

func init() { kernel.Register(prop{}) }

func (prop) ID() string     { return "C06" }
func (prop) Engine() string { return "SEQ" }
func (prop) Level() string  { return "exploration" }

func (prop) Budget(tier string) int {
	if tier == "thorough" {
		return 600000
	}
	return 9000
}

func (prop) Sweep(string) []kernel.Scenario { return nil }

func (prop) Describe() kernel.Description {
	return kernel.Description{
		Rule: "Dimensions added with the seed waves: every stream fault also under a declared Content-Length; a first read that fails once and then delivers; a MatchedRoute filled through its exported fields only; consumers registered under a mixed-case spelling over a lower-case one; admitted types without a registered consumer must not be decoded by another consumer; a sibling operation served first; abandoned request contexts. " +
			"one run = one generated operation (consumes list in lower case drawn from concrete types, type/*, */*, entries with parameters, or empty; API default media " +
			"type present or not; tagged consumers registered for a subset) × one request: method, Content-Type spelling from a grammar (case, parameters, quoted strings, odd " +
			"whitespace, absent, malformed), body presence signalled by Content-Length n / Content-Length 0 / chunked / neither — parsed from wire bytes by net/http — over a " +
			"scripted body stream (empty chunked body, zero-length reads before the first byte, first byte together with EOF, error before the first byte, error after it). The " +
			"same wire request is given on fresh streams to Context.BindValidRequest (generated-server path, recording binder) and Context.BindAndValidate (reflective path). " +
			"Reference: admitted(media type) per the statement; refusals are 415 / 400; an admitted type with a registered consumer is decoded by exactly that consumer; no body ⇒ " +
			"the gate does not fire; both entry points agree. distinct = distinct history signature (inputs + stream operations + outcomes); non-trivial = a stream fault kind " +
			"fired or a non-plain Content-Type spelling / wildcard / parameterised consumes entry was involved.",
		Real: []string{"middleware.Context.BindValidRequest", "middleware.Context.BindAndValidate / validation.contentType", "middleware.validateContentType",
			"runtime.ContentType", "runtime.HasBody + peekingReader", "net/http.ReadRequest (wire parser)", "untyped binder for the body parameter"},
		Stubs: []string{"request body (scripted stream under the parsed request)", "consumers (identity-tagged around the real JSON/text consumers)"},
		Assumptions: []string{
			"Accept is kept permissive (*/*) so that the response-format stage, where the two entry points legitimately differ, is not compared",
			"admitted-but-unregistered media types (no consumer registered with the API at all) are outside the statement and are not judged",
			"parameters are ignored on both sides of the admission comparison (request header and consumes entries)",
			"an operation that declares no consumes entry at all while the API has no default media type admits everything and has no consumer table; its 500 is a description error and is not judged",
		},
	}
}

// the first six may be registered; the rest are never registered (near misses of wildcard entries included)
var concrete = []string{"application/json", "text/plain", "application/xml", "application/vnd.sim+json", "text/csv", "application/octet-stream", "image/png", "textual/plain", "applicationx/json", "tex/plain"}
var consumesPool = []string{"application/json", "text/plain", "application/xml", "application/vnd.sim+json", "text/*", "application/*", "*/*",
	"application/json; charset=utf-8", "text/plain;version=1"}

type scn struct {
	consumes    []string
	defConsumes string
	registered  map[string]bool
	method      string
	media       string // media type the header denotes; "" malformed; "absent"
	header      string
	spelling    string
	signal      int // 0 content-length n, 1 content-length 0, 2 chunked, 3 neither
	body        []byte
	noBodyParam bool // the operation declares only a query parameter
	handMade    bool // the MatchedRoute given to both entry points is filled through its exported fields (a custom Router)
	mixedReg    bool // consumers are registered under a mixed-case spelling, over an earlier lower-case registration
	stream      int  // 0 plain 1 zero-length reads first 2 first byte with EOF 3 error before first byte 4 error after first byte 5 empty 6 the first read fails once (a timeout), the data follows
	// a sibling operation on the same path (other method, other consumes list) that is served first on the same Context
	sibling     bool
	sibMethod   string
	sibConsumes []string
	ctxDone     bool // the request's context has already ended when the gate runs (abandoned request)
}

func (s *scn) String() string {
	var reg []string
	for k := range s.registered {
		reg = append(reg, k)
	}
	sort.Strings(reg)
	return fmt.Sprintf("consumes=%q default=%q registered=%v %s Content-Type=%q (%s) signal=%d body=%d stream=%d sibling=%s%q ctxdone=%v", s.consumes, s.defConsumes, reg, s.method, s.header, s.spelling, s.signal, len(s.body), s.stream, s.sibMethod, s.sibConsumes, s.ctxDone)
}

func generate(t *kernel.Tape) *scn {
	s := &scn{registered: map[string]bool{}}
	n := t.Choose(4, "nconsumes")
	for i := 0; i < n; i++ {
		e := consumesPool[t.Choose(len(consumesPool), "consumes")]
		dup := false
		for _, x := range s.consumes {
			if x == e {
				dup = true
			}
		}
		if !dup {
			s.consumes = append(s.consumes, e)
		}
	}
	s.defConsumes = []string{"application/json", "", "text/csv"}[t.Choose(3, "default")]
	for _, c := range concrete[:6] {
		if !t.Bool(4, "unregistered") {
			s.registered[c] = true
		}
	}
	s.method = []string{"POST", "PUT", "PATCH", "DELETE", "GET", "OPTIONS"}[t.Choose(6, "method")]
	mt := concrete[t.Choose(len(concrete), "media")]
	switch t.Choose(9, "spelling") {
	case 0:
		s.header, s.media, s.spelling = mt, mt, "plain"
	case 1:
		s.header, s.media, s.spelling = mt+"; charset=utf-8", mt, "param"
	case 2:
		s.header, s.media, s.spelling = strings.ToUpper(mt), mt, "upper"
	case 3:
		s.header, s.media, s.spelling = strings.ToUpper(mt[:1])+mt[1:]+" ;  Charset=\"UTF-8\" ; x=y", mt, "mixed-case+quoted"
	case 4:
		s.header, s.media, s.spelling = "", "absent", "absent"
	case 5:
		s.header, s.media, s.spelling = []string{"application/", "/json", "text/plain; charset", "a/b/c", "application/json; =x", ";"}[t.Choose(6, "malformed")], "", "malformed"
	case 6:
		s.header, s.media, s.spelling = "  "+mt+"  ", mt, "whitespace"
	case 7:
		s.header, s.media, s.spelling = mt+";boundary=\"a;b\";q=0.1", mt, "quoted-semicolon"
	default:
		s.header, s.media, s.spelling = mt+";CHARSET=ISO-8859-1", mt, "upper-param"
	}
	s.signal = t.Weighted("signal", 4, 1, 4, 2)
	s.body = []byte(`{"req":0,"k":"v"}`)
	if t.Bool(3, "tiny-body") {
		s.body = []byte(`7`)
	}
	if s.signal == 2 {
		s.stream = t.Weighted("stream", 3, 2, 2, 2, 2, 2, 2)
	}
	s.noBodyParam = t.Bool(5, "operation-without-a-body-parameter")
	s.handMade = t.Bool(5, "hand-made-matched-route")
	s.mixedReg = t.Bool(5, "mixed-case-registration")
	if s.signal == 0 {
		// a declared length says "there is a body" whatever the stream then does
		s.stream = []int{0, 1, 3, 4, 6}[t.Weighted("stream-under-declared-length", 4, 1, 2, 1, 2)]
	}
	if t.Bool(3, "sibling-operation") {
		s.sibling = true
		for _, m := range []string{"PUT", "POST", "PATCH"} {
			if m != s.method {
				s.sibMethod = m
				break
			}
		}
		k := t.Choose(3, "sib-nconsumes")
		for i := 0; i <= k; i++ {
			s.sibConsumes = append(s.sibConsumes, consumesPool[t.Choose(len(consumesPool), "sib-consumes")])
		}
	}
	s.ctxDone = t.Bool(6, "context-already-done")
	return s
}

// admitted per the statement.
func admitted(consumes []string, def string, mt string) bool {
	list := append([]string(nil), consumes...)
	if def != "" {
		list = append(list, def)
	}
	if len(list) == 0 {
		return true // nothing declared: nothing to check against
	}
	major := mt
	if i := strings.Index(mt, "/"); i >= 0 {
		major = mt[:i]
	}
	for _, e := range list {
		base := strings.ToLower(strings.TrimSpace(strings.SplitN(e, ";", 2)[0]))
		if base == mt || base == "*/*" || base == major+"/*" {
			return true
		}
	}
	return false
}

type recBinder struct {
	called   int
	consumer runtime.Consumer
}

func (b *recBinder) BindRequest(_ *http.Request, route *middleware.MatchedRoute) error {
	b.called++
	b.consumer = route.Consumer
	return nil
}

type outcome struct {
	codes     []int
	consumer  string // tag selected / called ("" none)
	handlerOK bool
	errText   string
}

func (o outcome) gate() string {
	for _, c := range o.codes {
		switch c {
		case 400, 415, 500:
			return fmt.Sprint(c)
		}
	}
	return "pass"
}

func codesOf(err error) []int {
	if err == nil {
		return nil
	}
	var out []int
	var walk func(e error)
	walk = func(e error) {
		switch v := e.(type) {
		case *errors.CompositeError:
			for _, x := range v.Errors {
				walk(x)
			}
		case errors.Error:
			out = append(out, int(v.Code()))
		default:
			out = append(out, -1)
		}
	}
	walk(err)
	return out
}

func (prop) Run(t *testing.T, tape *kernel.Tape, sc kernel.Scenario) *kernel.Result {
	env := kernel.NewEnv(tape)
	res := &kernel.Result{}
	s := generate(tape)
	res.Summary = s.String()
	kernel.DrawOrder(tape)
	defer kernel.UninstallOrder()

	api := &simapi.API{BasePath: "/api", Produces: []string{"application/json"}}
	op := simapi.Op{Method: s.method, Path: "/thing", ID: "thing", Consumes: s.consumes, Params: []simapi.Param{
		{Name: "q", In: "query", Type: "string"},
		{Name: "payload", In: "body"},
	}}
	if s.noBodyParam {
		// the operation declares no body or form parameter; a request that carries a body is checked all the same
		op.Params = op.Params[:1]
	}
	if s.consumes == nil {
		op.Consumes = []string{}
	}
	api.Ops = []simapi.Op{op}
	if s.sibling {
		api.Ops = append(api.Ops, simapi.Op{Method: s.sibMethod, Path: "/thing", ID: "sibling", Consumes: s.sibConsumes, Params: op.Params})
	}
	doc, err := api.Doc()
	if err != nil {
		res.Infra = "description does not load: " + err.Error()
		return res
	}
	world := simapi.NewWorld(1)
	u := simapi.NewUntyped(doc)
	u.DefaultConsumes = s.defConsumes
	for mt := range s.registered {
		var inner runtime.Consumer = runtime.TextConsumer()
		if strings.Contains(mt, "json") {
			inner = runtime.JSONConsumer()
		}
		c := &simapi.Consumer{W: world, Tag: mt, Inner: inner}
		if s.mixedReg {
			// an earlier registration under the plain spelling is replaced by one spelled differently: media types have no case
			u.RegisterConsumer(mt, &simapi.Consumer{W: world, Tag: "replaced-registration:" + mt, Inner: inner})
			u.RegisterConsumer(mixedCase(mt), c)
			continue
		}
		u.RegisterConsumer(mt, c)
	}
	u.RegisterProducer("application/json", runtime.JSONProducer())
	u.RegisterOperation(s.method, "/thing", &simapi.Handler{W: world, Op: "thing"})
	if s.sibling {
		u.RegisterOperation(s.sibMethod, "/thing", &simapi.Handler{W: world, Op: "sibling"})
	}
	ctx := middleware.NewContext(doc, u, nil)
	_ = ctx.RoutesHandler(nil) // builds the router

	mkRequestFor := func(label, method string) (*http.Request, *kernel.Stream, bool) {
		var wire strings.Builder
		fmt.Fprintf(&wire, "%s /api/thing?q=1 HTTP/1.1\r\nHost: sim.local\r\nAccept: */*\r\n", method)
		if s.spelling != "absent" {
			fmt.Fprintf(&wire, "Content-Type: %s\r\n", s.header)
		}
		content := s.body
		switch s.signal {
		case 0:
			fmt.Fprintf(&wire, "Content-Length: %d\r\n\r\n%s", len(content), content)
		case 1:
			wire.WriteString("Content-Length: 0\r\n\r\n")
			content = nil
		case 2:
			if s.stream == 5 {
				content = nil
				wire.WriteString("Transfer-Encoding: chunked\r\n\r\n0\r\n\r\n")
			} else {
				fmt.Fprintf(&wire, "Transfer-Encoding: chunked\r\n\r\n%x\r\n%s\r\n0\r\n\r\n", len(content), content)
			}
		default:
			wire.WriteString("\r\n")
			content = nil
		}
		r, err := http.ReadRequest(bufio.NewReader(strings.NewReader(wire.String())))
		if err != nil {
			return nil, nil, false
		}
		r.Header.Set("X-Req", "0")
		st := kernel.NewStream(env, "body-"+label, content)
		readable := len(content) > 0
		switch s.stream {
		case 1:
			st.ZeroReads = 2
		case 2:
			st.Data = content[:1]
			st.TermWithData = true
		case 3:
			st.Data = nil
			st.Term = &kernel.InjectedError{What: "read error before the first byte"}
			readable = false
		case 4:
			st.Data = content[:1]
			st.Term = &kernel.InjectedError{What: "read error after the first byte"}
		case 6:
			st.TransientErrAt = 0
			readable = false // whoever asks is told about the failure, not handed a byte
		}
		r.Body = st
		if s.ctxDone {
			cctx, cancel := context.WithCancel(r.Context())
			cancel()
			r = r.WithContext(cctx)
		}
		has := r.ContentLength > 0 || (r.Header.Get("Content-Length") == "" && readable)
		return r, st, has
	}
	mkRequest := func(label string) (*http.Request, *kernel.Stream, bool) { return mkRequestFor(label, s.method) }
	if s.sibling {
		// the sibling operation is served first, through both entry points, with the same header and body
		env.Fault("sibling-operation-served-first")
		for _, typed := range []bool{true, false} {
			if rs, _, _ := mkRequestFor("sibling", s.sibMethod); rs != nil {
				if route, rq, ok := ctx.RouteInfo(rs); ok {
					_ = kernel.Catch(func() {
						if typed {
							_ = ctx.BindValidRequest(rq, route, &recBinder{})
						} else {
							_, _, _ = ctx.BindAndValidate(rq, route)
						}
					})
				}
			}
		}
		*world.Slots[0] = simapi.Obs{AuthScopes: map[string][]string{}}
	}
	if s.ctxDone {
		env.Fault("request-context-already-done")
	}

	r1, _, hasBody := mkRequest("typed")
	if r1 == nil {
		// net/http refuses the wire form (e.g. a header value it rejects): not a case
		res.FromEnv(env)
		return res
	}
	if s.spelling != "plain" {
		env.Fault("spelling-" + s.spelling)
	}
	for _, e := range s.consumes {
		if strings.Contains(e, "*") {
			env.Fault("wildcard-entry")
		}
		if strings.Contains(e, ";") {
			env.Fault("parameterised-entry")
		}
	}
	var o1, o2 outcome
	// ---- entry point 1: generated-server path
	route1, rq1, ok := ctx.RouteInfo(r1)
	if !ok {
		res.Infra = "route not found"
		return res
	}
	if s.handMade {
		route1 = handMadeRoute(route1)
	}
	rb := &recBinder{}
	if pm := kernel.Catch(func() {
		err := ctx.BindValidRequest(rq1, route1, rb)
		o1.codes = codesOf(err)
		if err != nil {
			o1.errText = err.Error()
		}
	}); pm != "" {
		env.Violate("C06/panic", "BindValidRequest", "BindValidRequest panicked: %s", pm)
	}
	o1.consumer = simapi.TagOf(rb.consumer)
	o1.handlerOK = rb.called > 0
	// ---- entry point 2: reflective path (fresh request, fresh stream)
	*world.Slots[0] = simapi.Obs{AuthScopes: map[string][]string{}}
	r2, _, _ := mkRequest("untyped")
	route2, rq2, _ := ctx.RouteInfo(r2)
	if s.handMade && route2 != nil {
		route2 = handMadeRoute(route2)
	}
	if pm := kernel.Catch(func() {
		_, _, err := ctx.BindAndValidate(rq2, route2)
		o2.codes = codesOf(err)
		if err != nil {
			o2.errText = err.Error()
		}
		o2.handlerOK = err == nil
	}); pm != "" {
		env.Violate("C06/panic", "BindAndValidate", "BindAndValidate panicked: %s", pm)
	}
	if len(world.Slots[0].Consumers) > 0 {
		o2.consumer = strings.Join(world.Slots[0].Consumers, "+")
	} else if route2.Consumer != nil {
		o2.consumer = "selected:" + simapi.TagOf(route2.Consumer)
	}
	env.Log("typed", "gate=%s codes=%v consumer=%q binder=%v", o1.gate(), o1.codes, o1.consumer, o1.handlerOK)
	env.Log("untyped", "gate=%s codes=%v consumer=%q ok=%v", o2.gate(), o2.codes, o2.consumer, o2.handlerOK)

	// ---- reference
	sig := fmt.Sprintf("%s:%s", s.spelling, listClass(s))
	switch {
	case !hasBody:
		for name, o := range map[string]outcome{"BindValidRequest": o1, "BindAndValidate": o2} {
			if g := o.gate(); g != "pass" && !(g == "500" && false) {
				env.Violate("C06/gate-fired-without-body", name+":"+g, "%s: the request carries no body (signal %d, stream %d) yet the content-type gate answered %s (%s)", name, s.signal, s.stream, g, o.errText)
			}
		}
	case s.media == "":
		for name, o := range map[string]outcome{"BindValidRequest": o1, "BindAndValidate": o2} {
			if o.gate() != "400" || o.consumer != "" && !strings.HasPrefix(o.consumer, "selected:") && name == "BindAndValidate" {
				env.Violate("C06/malformed-not-400", name, "%s: unparsable Content-Type %q with a body: gate=%s consumer=%q", name, s.header, o.gate(), o.consumer)
			}
		}
	default:
		mt := s.media
		if mt == "absent" {
			mt = "application/octet-stream"
		}
		adm := admitted(s.consumes, s.defConsumes, mt)
		for _, x := range []struct {
			name string
			o    outcome
		}{{"BindValidRequest", o1}, {"BindAndValidate", o2}} {
			name, o := x.name, x.o
			switch {
			case !adm && o.gate() != "415":
				env.Violate("C06/not-admitted-not-415", name+":"+sig, "%s: %q is not admitted by consumes %q + default %q, gate=%s consumer=%q (%s)", name, mt, s.consumes, s.defConsumes, o.gate(), o.consumer, o.errText)
			case !adm && (o.consumer != "" || o.handlerOK):
				env.Violate("C06/consumer-ran-for-refused-type", name+":"+sig, "%s: refused type %q but consumer=%q binder/handler=%v", name, mt, o.consumer, o.handlerOK)
			case adm && o.gate() == "415":
				env.Violate("C06/admitted-type-refused", name+":"+sig, "%s: %q is admitted by consumes %q + default %q but was refused with 415 (%s)", name, mt, s.consumes, s.defConsumes, o.errText)
			case adm && !s.registered[mt] && o.consumer != "" && strings.TrimPrefix(o.consumer, "selected:") != "":
				env.Violate("C06/wrong-consumer", name+":no-consumer-registered:"+sig, "%s: %q is admitted but has no registered consumer, yet the body was handed to consumer %q", name, mt, o.consumer)
			case adm && s.registered[mt] && o.gate() == "500" && admittedVia(s, mt) != "empty-list":
				env.Violate("C06/admitted-type-no-consumer", name+":"+admittedVia(s, mt), "%s: %q is admitted (%s) and a consumer is registered for it, yet: %s", name, mt, admittedVia(s, mt), o.errText)
			case adm && s.registered[mt] && o.gate() == "pass":
				want := mt
				got := strings.TrimPrefix(o.consumer, "selected:")
				if got != want && !(name == "BindAndValidate" && got == "") {
					env.Violate("C06/wrong-consumer", name+":"+sig, "%s: body of type %q handed to consumer %q", name, mt, o.consumer)
				}
				if name == "BindAndValidate" && len(world.Slots[0].Consumers) > 1 {
					env.Violate("C06/consumed-twice", name, "BindAndValidate ran consumers %q", o.consumer)
				}
			}
		}
	}
	if o1.gate() != o2.gate() {
		env.Violate("C06/entry-points-disagree", o1.gate()+"-vs-"+o2.gate(), "BindValidRequest gate=%s (%s), BindAndValidate gate=%s (%s)", o1.gate(), o1.errText, o2.gate(), o2.errText)
	} else if o1.gate() == "pass" && hasBody && o1.consumer != "" && o2.consumer != "" && o1.consumer != strings.TrimPrefix(o2.consumer, "selected:") {
		env.Violate("C06/entry-points-disagree", "consumer", "BindValidRequest selected %q, BindAndValidate used %q", o1.consumer, o2.consumer)
	}
	res.FromEnv(env)
	res.Sig = kernel.Mix(res.Sig, kernel.HashString(res.Summary))
	return res
}

// handMadeRoute is what an application's own middleware.Router hands out: a MatchedRoute filled through its exported
// fields only (whatever the default router keeps in unexported ones is not there).
func handMadeRoute(r *middleware.MatchedRoute) *middleware.MatchedRoute {
	m := &middleware.MatchedRoute{}
	m.PathPattern, m.BasePath, m.Operation = r.PathPattern, r.BasePath, r.Operation
	m.Consumes, m.Consumers, m.Produces, m.Producers = r.Consumes, r.Consumers, r.Produces, r.Producers
	m.Parameters, m.Handler, m.Formats, m.Binder = r.Parameters, r.Handler, r.Formats, r.Binder
	m.Authenticators, m.Authorizer = r.Authenticators, r.Authorizer
	m.Params, m.Consumer, m.Producer, m.Authenticator = r.Params, r.Consumer, r.Producer, r.Authenticator
	return m
}

func mixedCase(mt string) string {
	b := []byte(mt)
	for i := range b {
		if i%2 == 0 && b[i] >= 'a' && b[i] <= 'z' {
			b[i] -= 'a' - 'A'
		}
	}
	return string(b)
}

func admittedVia(s *scn, mt string) string {
	list := append([]string(nil), s.consumes...)
	if s.defConsumes != "" {
		list = append(list, s.defConsumes)
	}
	if len(list) == 0 {
		return "empty-list"
	}
	for _, e := range list {
		if strings.ToLower(e) == mt {
			return "literal"
		}
	}
	for _, e := range list {
		if b := strings.TrimSpace(strings.SplitN(e, ";", 2)[0]); b == mt {
			return "parameterised-entry"
		}
	}
	return "wildcard-entry"
}

func listClass(s *scn) string {
	c := "concrete"
	if len(s.consumes) == 0 {
		c = "empty"
	}
	for _, e := range s.consumes {
		if strings.Contains(e, ";") {
			c = "parameterised"
		}
	}
	for _, e := range s.consumes {
		if strings.Contains(e, "*") {
			c = "wildcard"
		}
	}
	return c
}

var _ = mime.ParseMediaType
