package c16

import (
	"encoding/json"

	"verif.local/sim/kernel"
)

// The sweep: canonical texts × every stream-typed kind × every read-error
// offset × chunking, and every sink-error offset × every kind.

type sweepParams struct {
	Side   string `json:"side"` // consume | produce
	Input  int    `json:"input"`
	Kind   int    `json:"kind"`
	ErrAt  int    `json:"err_at"`  // read error offset of the input stream, -1 none
	SinkAt int    `json:"sink_at"` // write error offset of the output, -1 none
	Chunk  int    `json:"chunk"`
	Skip   int    `json:"skip"`
}

var sweepInputs = []string{
	"h1,h2\na,b\nc,d\n",
	"\"q,1\",\"l\nb\"\r\n# c\n\nx,\"y\"\"z\"\n",
	"a,b\n\"open,c\n",
	"one\ntwo,2\n",
	"é,世\n,\n\"\"\n",
}

func (prop) Sweep(tier string) []kernel.Scenario {
	inputs := len(sweepInputs)
	skips := []int{0, 1, 5}
	if tier != "thorough" {
		inputs = 2
		skips = []int{0, 1}
	}
	var out []kernel.Scenario
	add := func(p sweepParams) {
		b, _ := json.Marshal(p)
		out = append(out, kernel.Scenario{Name: "sweep", Params: b})
	}
	for in := 0; in < inputs; in++ {
		n := len(sweepInputs[in])
		for _, skip := range skips {
			// read-error offsets
			for off := -1; off <= n; off++ {
				for _, chunk := range []int{kernel.ChunkWhole, kernel.ChunkOne, kernel.ChunkRandom} {
					for kind := 0; kind < nDst; kind++ {
						add(sweepParams{"consume", in, kind, off, -1, chunk, skip})
					}
					for _, kind := range []int{srcIOReader, srcCSVReader, srcWriterTo} {
						add(sweepParams{"produce", in, kind, off, -1, chunk, skip})
					}
				}
			}
			// write-error offsets
			for off := 0; off <= n+2; off++ {
				for kind := 0; kind < nSrc; kind++ {
					add(sweepParams{"produce", in, kind, -1, off, kernel.ChunkRandom, skip})
				}
				for _, kind := range []int{dstIOWriter, dstCSVWriter, dstReaderFrom} {
					add(sweepParams{"consume", in, kind, -1, off, kernel.ChunkWhole, skip})
				}
			}
		}
	}
	return out
}

func sweepPlan(sc kernel.Scenario) *plan {
	var sp sweepParams
	_ = json.Unmarshal(sc.Params, &sp)
	p := &plan{Text: sweepInputs[sp.Input]}
	p.Opts.Skip = sp.Skip
	p.Opts.FPR = 0
	in := streamPlan{Chunk: sp.Chunk, Fixed: 3, ErrAt: sp.ErrAt, Zero: 1}
	p.Src = srcPlan{RecErrAt: -1, SinkFailAt: -1, In: streamPlan{ErrAt: -1}}
	p.Dst = dstPlan{SinkFailAt: -1, RecFailAt: -1, RFFailAt: -1, In: streamPlan{ErrAt: -1}}
	if sp.Side == "produce" {
		p.Mode = modeProduce
		p.Src.Kind = sp.Kind
		p.Src.In = in
		p.Src.SinkFailAt = sp.SinkAt
		p.PeerSrc = (sp.Kind + 1) % nSrc
		if _, err := parseStd([]byte(p.Text), p.Opts); err != nil {
			p.OwnTable = true
			p.Table = [][]string{{"t1", "t2"}, {"", "q\"r"}, {"line\nbreak", "x"}}
		}
	} else {
		p.Mode = modeConsume
		p.Dst.Kind = sp.Kind
		p.Dst.In = in
		p.Dst.RFChunk = 7
		switch sp.Kind {
		case dstReaderFrom:
			p.Dst.RFFailAt = sp.SinkAt
		default:
			p.Dst.SinkFailAt = sp.SinkAt
		}
		p.PeerDst = (sp.Kind + 1) % nDst
	}
	return p
}
