package c16

import (
	"bytes"
	"encoding/csv"
	"strings"

	"github.com/go-openapi/runtime"

	"verif.local/sim/kernel"
)

// opts is one option set of the codec.  Zero values are the defaults.
type opts struct {
	RComma   rune `json:"r_comma,omitempty"`
	RComment rune `json:"r_comment,omitempty"`
	Lazy     bool `json:"lazy,omitempty"`
	Trim     bool `json:"trim,omitempty"`
	FPR      int  `json:"fpr,omitempty"`
	Reuse    bool `json:"reuse,omitempty"`
	WComma   rune `json:"w_comma,omitempty"`
	CRLF     bool `json:"crlf,omitempty"`
	Skip     int  `json:"skip,omitempty"`
	Closes   bool `json:"closes,omitempty"`
	Explicit bool `json:"explicit,omitempty"` // pass every option even when it has its default value
}

func (o opts) readerNonDefault() bool {
	return o.RComma != 0 || o.RComment != 0 || o.Lazy || o.Trim || o.FPR != 0
}

// codec builds the option list handed to CSVConsumer / CSVProducer.
func (o opts) codec() []runtime.CSVOpt {
	var out []runtime.CSVOpt
	if o.readerNonDefault() || o.Reuse || o.Explicit {
		out = append(out, runtime.WithCSVReaderOpts(csv.Reader{
			Comma: o.RComma, Comment: o.RComment, LazyQuotes: o.Lazy, TrimLeadingSpace: o.Trim,
			FieldsPerRecord: o.FPR, ReuseRecord: o.Reuse,
		}))
	}
	if o.WComma != 0 || o.CRLF || o.Explicit {
		out = append(out, runtime.WithCSVWriterOpts(csv.Writer{Comma: o.WComma, UseCRLF: o.CRLF}))
	}
	if o.Skip != 0 || o.Explicit {
		out = append(out, runtime.WithCSVSkipLines(o.Skip))
	}
	if o.Closes {
		out = append(out, runtime.WithCSVClosesStream())
	}
	return out
}

// configureReader gives a standard reader the option set (what "a standard
// CSV parse under the same options" means).
func (o opts) configureReader(r *csv.Reader) {
	if o.RComma != 0 {
		r.Comma = o.RComma
	}
	r.Comment = o.RComment
	r.LazyQuotes = o.Lazy
	r.TrimLeadingSpace = o.Trim
	r.FieldsPerRecord = o.FPR
}

func (o opts) configureWriter(w *csv.Writer) {
	if o.WComma != 0 {
		w.Comma = o.WComma
	}
	w.UseCRLF = o.CRLF
}

func (o opts) rComma() rune {
	if o.RComma != 0 {
		return o.RComma
	}
	return ','
}

var (
	rCommas   = []rune{0, ';', '\t', '|', 'é'}
	rComments = []rune{0, '#', ';', '|'}
	wCommas   = []rune{0, ';', '\t', 'é'}
	fprs      = []int{0, -1, 1, 2, 3}
)

func genOpts(t *kernel.Tape) opts {
	var o opts
	// reader side: default in about half of the runs
	if t.Bool(2, "ropts?") {
		o.RComma = rCommas[t.Weighted("r-comma", 3, 3, 1, 1, 1)]
		o.RComment = rComments[t.Weighted("r-comment", 3, 3, 1, 1)]
		if o.RComment == o.rComma() {
			o.RComment = '#'
		}
		o.Lazy = t.Bool(3, "lazy")
		o.Trim = t.Bool(3, "trim")
	}
	o.FPR = fprs[t.Weighted("fpr", 4, 4, 1, 1, 1)]
	o.Reuse = t.Bool(5, "reuse")
	if t.Bool(3, "wopts?") {
		o.WComma = wCommas[t.Weighted("w-comma", 2, 3, 1, 1)]
		o.CRLF = t.Bool(2, "crlf")
	}
	o.Closes = t.Bool(5, "closes")
	o.Explicit = t.Bool(4, "explicit-defaults")
	return o
}

// ---------------------------------------------------------------------------
// CSV text

var plainWords = []string{"a", "b", "xy", "1", "42", "name", "é", "世界", "x y"}

// genField renders one field the way a CSV author would, including the ways
// authors get it wrong.
func genField(t *kernel.Tape, sep string, comment rune) string {
	switch t.Weighted("field", 8, 3, 2, 4, 1, 1, 1, 1, 1, 1, 1) {
	case 0:
		return plainWords[t.Choose(len(plainWords), "word")]
	case 1:
		return ""
	case 2: // quoted, nothing special inside
		return `"` + plainWords[t.Choose(len(plainWords), "word")] + `"`
	case 3: // quoted with something that needs the quotes
		inner := []string{sep, "\n", "\r\n", `""`, "\r", " ", "", "#", sep + sep, "a\nb", `""""`, "\r\r\n"}
		var sb strings.Builder
		sb.WriteByte('"')
		for i, n := 0, 1+t.Choose(3, "nparts"); i < n; i++ {
			if t.Bool(2, "part-word") {
				sb.WriteString(plainWords[t.Choose(len(plainWords), "word")])
			}
			sb.WriteString(inner[t.Choose(len(inner), "inner")])
		}
		sb.WriteByte('"')
		return sb.String()
	case 4: // leading space (TrimLeadingSpace matters, also in front of a quote)
		if t.Bool(2, "space-quote") {
			return ` "q"`
		}
		return "  " + plainWords[t.Choose(len(plainWords), "word")]
	case 5: // trailing space / tab
		return plainWords[t.Choose(len(plainWords), "word")] + []string{" ", "\t"}[t.Choose(2, "ws")]
	case 6: // bare quote inside an unquoted field (malformed unless lazy)
		return `a"b`
	case 7: // unterminated quote (malformed)
		return `"open`
	case 8: // text after the closing quote (malformed unless lazy)
		return `"ab"c`
	case 9: // starts with the comment character
		if comment != 0 {
			return string(comment) + "c"
		}
		return "#c"
	default: // the other separators as ordinary text
		return []string{",", ";", "\t", "|", "é"}[t.Choose(5, "other-sep")]
	}
}

var rawAlphabet = []string{"a", ",", "\n", `"`, "\r", " ", ";", "#", "b", "\r\n", `""`, "é", "\t", "|", "世"}

// genText draws a CSV text.  Option 0 everywhere gives a tiny regular table.
func genText(t *kernel.Tape, o opts) []byte {
	sep := string(o.rComma())
	if t.Bool(8, "foreign-sep") {
		sep = []string{",", ";", "\t"}[t.Choose(3, "sep")]
	}
	var sb strings.Builder
	switch t.Weighted("text-mode", 8, 2, 1) {
	case 1: // raw: any sequence over the awkward alphabet
		n := t.Choose(24, "raw-len")
		for i := 0; i < n; i++ {
			sb.WriteString(rawAlphabet[t.Choose(len(rawAlphabet), "raw")])
		}
		return []byte(sb.String())
	case 2: // big: crosses the 4096-byte buffers of bufio and csv.Writer
		rows := 150 + t.Choose(250, "big-rows")
		tail := t.Choose(4, "big-tail")
		for i := 0; i < rows; i++ {
			sb.WriteString("row")
			sb.WriteString(strings.Repeat("x", i%7))
			sb.WriteString(sep)
			sb.WriteString(`"q` + sep + `""v"`)
			sb.WriteString(sep)
			sb.WriteString("0123456789")
			sb.WriteString("\n")
		}
		switch tail {
		case 1:
			sb.WriteString("last" + sep + "no" + sep + "newline")
		case 2:
			sb.WriteString(`"open` + sep + "x" + sep + "y\n")
		case 3:
			sb.WriteString("short\n")
		}
		return []byte(sb.String())
	}
	rows := 1 + t.Choose(6, "rows")
	if t.Bool(12, "no-rows") {
		rows = 0
	}
	fields := 1 + t.Choose(4, "fields")
	eol := []string{"\n", "\r\n"}[t.Weighted("eol", 4, 1)]
	for i := 0; i < rows; i++ {
		if t.Bool(8, "blank-line") {
			sb.WriteString(eol)
		}
		if t.Bool(8, "comment-line") {
			c := "#"
			if o.RComment != 0 && t.Bool(2, "active-comment") {
				c = string(o.RComment)
			}
			sb.WriteString(c + " note" + sep + "x" + eol)
		}
		n := fields
		if t.Bool(6, "ragged") {
			n = 1 + t.Choose(5, "ragged-n")
		}
		for j := 0; j < n; j++ {
			if j > 0 {
				sb.WriteString(sep)
			}
			sb.WriteString(genField(t, sep, o.RComment))
		}
		if i < rows-1 || !t.Bool(4, "no-final-eol") {
			sb.WriteString(eol)
		}
	}
	return []byte(sb.String())
}

// genRecords draws a record table directly (for the record-typed source kinds
// when the text does not parse, and as a table of its own).
func genRecords(t *kernel.Tape) [][]string {
	values := []string{"a", "", "b c", "x,y", "q\"r", "line\nbreak", "cr\r\nlf", " lead", "é世", ";", "#h", "\r", `\.`}
	rows := t.Choose(6, "rec-rows")
	fields := 1 + t.Choose(3, "rec-fields")
	out := make([][]string, 0, rows)
	for i := 0; i < rows; i++ {
		n := fields
		if t.Bool(6, "rec-ragged") {
			n = t.Choose(5, "rec-ragged-n") // 0: a record without fields
		}
		rec := make([]string, n)
		for j := range rec {
			rec[j] = values[t.Weighted("rec-value", 6, 2, 1, 1, 1, 1, 1, 1, 1, 1, 1, 1, 1)]
		}
		if n == 0 && t.Bool(2, "nil-record") {
			rec = nil
		}
		out = append(out, rec)
	}
	return out
}

// ---------------------------------------------------------------------------
// the reference: encoding/csv itself

// parseStd is "a standard CSV parse of the input" under the reader options.
func parseStd(text []byte, o opts) ([][]string, error) {
	r := csv.NewReader(bytes.NewReader(text))
	o.configureReader(r)
	return r.ReadAll()
}

// writeStd is the standard encoding of records under the writer options.
func writeStd(recs [][]string, o opts) []byte {
	var buf bytes.Buffer
	w := csv.NewWriter(&buf)
	o.configureWriter(w)
	_ = w.WriteAll(recs)
	return buf.Bytes()
}

// reparse reads text produced under the writer options back into records.
func reparse(text []byte, o opts) ([][]string, error) {
	r := csv.NewReader(bytes.NewReader(text))
	if o.WComma != 0 {
		r.Comma = o.WComma
	}
	r.FieldsPerRecord = -1
	return r.ReadAll()
}

func dropFirst(recs [][]string, n int) [][]string {
	if n <= 0 {
		return recs
	}
	if n >= len(recs) {
		return nil
	}
	return recs[n:]
}

func sameRecords(a, b [][]string) bool {
	if len(a) != len(b) {
		return false
	}
	for i := range a {
		if len(a[i]) != len(b[i]) {
			return false
		}
		for j := range a[i] {
			if a[i][j] != b[i][j] {
				return false
			}
		}
	}
	return true
}
