// Package c16: the CSV codec delivers exactly the parsed records for every
// source and destination kind (runtime.CSVConsumer / runtime.CSVProducer).
//
// SEQ driver for everything that runs on the caller's goroutine; the
// producer's io.WriterTo path (two errgroup goroutines joined by an io.Pipe)
// runs inside a K1 synctest bubble, where every chunk of the scripted
// WriterTo and every write to the sink is a scheduling point chosen by the
// tape and the goroutine scan decides whether both goroutines finished.
package c16

import (
	"bytes"
	"encoding/csv"
	"encoding/json"
	"errors"
	"fmt"
	"io"
	"sort"
	"strings"
	"testing"

	"github.com/go-openapi/runtime"

	"verif.local/sim/kernel"
)

type prop struct{}

func init() { kernel.Register(prop{}) }

func (prop) ID() string     { return "C16" }
func (prop) Engine() string { return "SEQ+K1" }
func (prop) Level() string  { return "exploration" }

func (prop) Budget(tier string) int {
	if tier == "thorough" {
		return 9000000
	}
	return 200000
}

func (prop) Describe() kernel.Description {
	return kernel.Description{
		Rule: "Dimensions added with the seed waves: a WriterTo that streams through one recycled scratch buffer and fails with io.EOF-flavoured errors; record iterators that move on to the next set when asked again after io.EOF; separator / comment / fields-per-record set on the caller's own *csv.Reader / *csv.Writer; overlapping Consume calls and rows kept from an earlier page. " +
			"one run = one CSV text (structured rows with plain / empty / quoted / embedded separator, newline, CRLF, doubled quote / leading space / " +
			"bare quote / unterminated quote / text after the closing quote / comment-character fields, blank and comment lines, ragged rows, LF or CRLF, " +
			"with or without final newline; or a raw sequence over an awkward alphabet; or a 4-9 KB table that crosses the 4096-byte buffers) × one option set " +
			"(reader comma, comment, lazy quotes, trim leading space, fields per record 0/-1/n, record reuse; writer comma, CRLF; skipped lines 0..records+2; " +
			"closes-stream) × mode (consume the text into a destination kind / produce from a source kind / chain: consume what was produced) × primary kind " +
			"(8 sources: []byte, string, [][]string, io.Reader, *csv.Reader, CSVReader, BinaryMarshaler, io.WriterTo, values or pointers; 8 destinations: *[]byte, *string, " +
			"*[][]string, io.Writer, *csv.Writer, CSVWriter, io.ReaderFrom, BinaryUnmarshaler; fresh, pre-populated shorter / equal / longer, already used, typed nil) " +
			"× scripted stream behaviour (chunking whole / 1 / fixed / random, zero-length reads, data+EOF, read error at an offset, sink write error at an offset, " +
			"failing CSVReader / CSVWriter / ReaderFrom / (un)marshaler / WriterTo) × one fault-free peer kind run on the same input for kind-to-kind agreement. " +
			"The io.WriterTo source runs in a synctest bubble: chunk writes into the pipe and sink writes are released one at a time in tape order, then the " +
			"goroutine scan looks for survivors. thorough adds the sweep: canonical texts × every stream-typed kind × every read-error offset × chunking, and every " +
			"sink-error offset × every source kind. distinct = distinct history signature; non-trivial = ≥1 fault kind fired (short read, zero-length read, " +
			"data+EOF, injected error) or ≥2 operations parked together in the bubble.",
		Real: []string{"runtime.CSVConsumer", "runtime.CSVProducer (incl. errgroup + io.Pipe for io.WriterTo)", "runtime.pipeCSV / bufferedCSV / csvRecordsWriter",
			"encoding/csv Reader and Writer, bufio, io.Pipe, reflect"},
		Stubs: []string{"input / output byte streams (scripted Stream, Sink)", "scripted CSVReader, CSVWriter, io.ReaderFrom, io.WriterTo, BinaryMarshaler, BinaryUnmarshaler"},
		Assumptions: []string{
			"'skipped lines' is read as 'skipped records of the standard parse' (what the implementation and the repo's tests do); runs where dropping physical lines before parsing would give another result are counted by the probe skip:line-reading-differs",
			"text-typed outputs are compared after re-parsing with the writer's separator, against the reference records passed through the same standard write+parse (encoding/csv does not round-trip a lone empty field, a record without fields, or CR LF inside a field; such runs are counted by the probe canon:lossy)",
			"option sets are valid for encoding/csv (separator ≠ comment, valid runes); negative skip counts are not generated",
			"a *csv.Reader / *csv.Writer handed in by the caller is either default-constructed or configured exactly like the option set (the codec overwrites its flags with the option set)",
			"a CSVWriter counts a record as delivered once Flush was called after its Write, and copies the record during Write (as csv.Writer does)",
			"typed-nil values are generated for pointer destinations only (the statement names destination state); named slice types are not generated",
			"with an injected read error or a failing collaborator the call must fail; nothing is required of what already reached the destination",
			"the order in which the two errgroup goroutines report their errors is left to the Go scheduler between scheduling points; the scripted WriterTo parks before returning a pipe-write error, so the parser's / sink's error is reported first",
			"zero-length reads are bounded (≤3 per stream)",
		},
	}
}

// ---------------------------------------------------------------------------
// kinds, states, plan

const (
	srcBytes = iota
	srcString
	srcRecords
	srcIOReader
	srcCSVReader
	srcCSVReaderIface
	srcBinMarshaler
	srcWriterTo
	nSrc
)

var srcNames = []string{"bytes", "string", "records", "io-reader", "csv-reader", "csvreader-iface", "binary-marshaler", "writer-to"}

const (
	dstBytes = iota
	dstString
	dstRecords
	dstIOWriter
	dstCSVWriter
	dstCSVWriterIface
	dstReaderFrom
	dstBinUnmarshaler
	nDst
)

var dstNames = []string{"bytes", "string", "records", "io-writer", "csv-writer", "csvwriter-iface", "reader-from", "binary-unmarshaler"}

func srcIsRecords(k int) bool { return k == srcRecords || k == srcCSVReaderIface }
func dstIsRecords(k int) bool { return k == dstRecords || k == dstCSVWriterIface }

const (
	stFresh = iota
	stShorter
	stEqual
	stLonger
	stNil
)

var stateNames = []string{"fresh", "shorter", "equal", "longer", "nil"}

const (
	modeConsume = iota
	modeProduce
	modeChain
)

type streamPlan struct {
	Chunk    int  `json:"chunk,omitempty"`
	Fixed    int  `json:"fixed,omitempty"`
	Zero     int  `json:"zero,omitempty"`
	WithData bool `json:"with_data,omitempty"`
	ErrAt    int  `json:"err_at"`             // -1: clean EOF
	ErrKind  int  `json:"err_kind,omitempty"` // io.WriterTo sources only: the error value WriteTo fails with: 0 private, 1 io.EOF, 2 wraps io.EOF
	Closer   bool `json:"closer,omitempty"`
}

type srcPlan struct {
	Kind        int        `json:"kind"`
	Ptr         bool       `json:"ptr,omitempty"`
	In          streamPlan `json:"in"`
	PreCfg      bool       `json:"pre_cfg,omitempty"`
	RecErrAt    int        `json:"rec_err_at"`
	MarshalFail bool       `json:"marshal_fail,omitempty"`
	SinkFailAt  int        `json:"sink_fail_at"`
	SinkCloser  bool       `json:"sink_closer,omitempty"`
	SinkUsed    bool       `json:"sink_used,omitempty"`
}

type dstPlan struct {
	Kind          int        `json:"kind"`
	State         int        `json:"state,omitempty"`
	Extra         int        `json:"extra,omitempty"`
	Cap           int        `json:"cap,omitempty"`
	In            streamPlan `json:"in"`
	PreCfg        bool       `json:"pre_cfg,omitempty"`
	SinkFailAt    int        `json:"sink_fail_at"`
	RecFailAt     int        `json:"rec_fail_at"`
	ErrAtEnd      bool       `json:"err_at_end,omitempty"`
	RFFailAt      int        `json:"rf_fail_at"`
	RFChunk       int        `json:"rf_chunk,omitempty"`
	UnmarshalFail bool       `json:"unmarshal_fail,omitempty"`
}

type plan struct {
	Opts     opts       `json:"opts"`
	Text     string     `json:"text"`
	Table    [][]string `json:"table,omitempty"`
	OwnTable bool       `json:"own_table,omitempty"` // the record-typed sources get a table that is not the parse of Text
	Mode     int        `json:"mode"`
	Src      srcPlan    `json:"src"`
	Dst      dstPlan    `json:"dst"`
	PeerSrc  int        `json:"peer_src"`
	PeerDst  int        `json:"peer_dst"`
}

func (p *plan) String() string {
	q := *p
	if len(q.Text) > 120 {
		q.Text = q.Text[:120] + fmt.Sprintf("…(%d bytes)", len(p.Text))
	}
	b, _ := json.Marshal(&q)
	return string(b)
}

// The plan is drawn in three layers so that shrinking the text on the tape
// does not shift the structural choices: (1) a fixed number of structural
// draws (mode, kinds, states, which faults, stream shapes), (2) options and
// text, (3) everything whose range depends on the text (offsets, skip).

type streamShape struct {
	chunk    int
	fixedSel int
	zero     int
	withData bool
	closer   bool
	readErr  bool
}

func genShape(t *kernel.Tape) streamShape {
	return streamShape{
		chunk:    t.Choose(4, "chunkmode"),
		zero:     t.Choose(4, "zero-budget"),
		withData: t.Bool(2, "term-with-data"),
		closer:   t.Bool(2, "closer"),
		readErr:  t.Bool(4, "read-error?"),
	}
}

func (sh streamShape) plan(t *kernel.Tape, n int, small bool) streamPlan {
	s := streamPlan{ErrAt: -1, Chunk: sh.chunk, Zero: sh.zero, WithData: sh.withData, Closer: sh.closer}
	if small {
		s.Fixed = 1 + t.Choose(16, "fixed")
	} else {
		s.Fixed = 64 + t.Choose(5000, "fixed-big")
		if s.Chunk == kernel.ChunkOne || s.Chunk == kernel.ChunkRandom {
			s.Chunk = kernel.ChunkFixed
		}
	}
	if sh.readErr {
		s.ErrAt = t.Choose(n+1, "err-off")
		s.ErrKind = t.Weighted("writeto-error-value", 3, 1, 1)
	}
	return s
}

func genPlan(t *kernel.Tape) *plan {
	p := &plan{}
	s, d := &p.Src, &p.Dst
	s.RecErrAt, s.SinkFailAt, s.In.ErrAt = -1, -1, -1
	d.SinkFailAt, d.RecFailAt, d.RFFailAt, d.In.ErrAt = -1, -1, -1, -1

	// layer 1: structure (always the same number of draws)
	p.Mode = t.Choose(3, "mode")
	s.Kind = t.Choose(nSrc, "src-kind")
	d.Kind = t.Choose(nDst, "dst-kind")
	d.State = t.Weighted("dst-state", 6, 2, 2, 2, 1)
	p.PeerSrc = t.Choose(nSrc-1, "peer-src")
	if p.PeerSrc >= s.Kind {
		p.PeerSrc++
	}
	p.PeerDst = t.Choose(nDst-1, "peer-dst")
	if p.PeerDst >= d.Kind {
		p.PeerDst++
	}
	srcShape, dstShape := genShape(t), genShape(t)
	recErr := t.Bool(6, "rec-error?")
	s.MarshalFail = t.Bool(8, "marshal-fail")
	srcSinkErr := t.Bool(5, "sink-error?")
	dstFault := t.Bool(5, "dst-fault?")
	d.ErrAtEnd = t.Bool(3, "err-at-end")
	ownTable := t.Bool(5, "own-table")
	skip := t.Bool(2, "skip?")
	s.Ptr = t.Bool(3, "src-ptr")
	s.PreCfg = t.Bool(3, "src-precfg")
	s.SinkCloser = t.Bool(3, "sink-closer")
	s.SinkUsed = t.Bool(6, "sink-used")
	d.Extra = t.Choose(3, "dst-extra")
	d.Cap = t.Choose(3, "dst-cap")
	d.PreCfg = t.Bool(3, "dst-precfg")
	d.RFChunk = []int{512, 1, 7, 4096}[t.Choose(4, "rf-chunk")]

	// layer 2: options and text
	p.Opts = genOpts(t)
	text := genText(t, p.Opts)
	p.Text = string(text)
	recs, perr := parseStd(text, p.Opts)
	n := len(recs)
	if perr != nil {
		n = bytes.Count(text, []byte("\n")) + 1
	}
	if p.Mode != modeConsume && (perr != nil || ownTable) {
		p.Table = genRecords(t)
		p.OwnTable = true
	}

	// layer 3: what depends on the text
	small := len(text) <= 600
	if skip {
		p.Opts.Skip = t.Range(0, n+2, "skip")
	}
	if p.Mode != modeConsume {
		s.In = srcShape.plan(t, len(text), small)
		if recErr {
			tn := n
			if p.OwnTable {
				tn = len(p.Table)
			}
			s.RecErrAt = t.Choose(tn+1, "rec-err-at")
		}
		if srcSinkErr {
			s.SinkFailAt = t.Choose(len(text)+8, "sink-fail-at")
		}
	} else {
		s.MarshalFail = false
	}
	if p.Mode != modeProduce {
		d.In = dstShape.plan(t, len(text), small)
		if !dstFault {
			d.ErrAtEnd = false
		} else {
			switch d.Kind {
			case dstIOWriter, dstCSVWriter:
				d.SinkFailAt = t.Choose(len(text)+8, "sink-fail-at")
			case dstCSVWriterIface:
				if !d.ErrAtEnd {
					d.RecFailAt = t.Choose(n+1, "rec-fail-at")
				}
			case dstReaderFrom:
				d.RFFailAt = t.Choose(len(text)+8, "rf-fail-at")
			case dstBinUnmarshaler:
				d.UnmarshalFail = true
			}
		}
		if d.Kind != dstCSVWriterIface {
			d.ErrAtEnd = false
		}
	}
	return p
}

// ---------------------------------------------------------------------------
// outcomes and the reference

type want struct {
	recs [][]string
	err  error
}

type outcome struct {
	side     string // "source" | "dest"
	kind     string
	state    string
	panicMsg string
	err      error
	isText   bool
	text     []byte
	recs     [][]string
	detail   string // e.g. "prefix-clobbered"
	fault    string // kind of the injected fault that reached the codec ("" = none)
	aliased  string // non-empty: description of two delivered records sharing memory
	noReturn bool
	leaked   []string
	deviates string // set by judge: class of the deviation from the reference
	ignored  bool   // set by judge: explained by "reader options ignored"
	racyErr  bool   // which of two errors came back is up to the Go scheduler
	fired    bool   // the injected fault was actually delivered
	writeErr error  // writer-to: what the codec's pipe answered to the WriterTo's write (nil: every write was taken)
}

func (o *outcome) label() string {
	if o.ignored {
		return o.kind + "[reader-options-ignored]"
	}
	return o.kind
}

type run struct {
	t    *testing.T
	env  *kernel.Env
	tape *kernel.Tape
	p    *plan
	res  *kernel.Result
	// one codec object per run, reused for the primary and the peer call: a codec
	// is a value built once and used for many calls, no call may change it
	prod runtime.Producer
	cons runtime.Consumer
}

func (c *run) producer(o opts) runtime.Producer {
	if c.prod == nil {
		c.prod = runtime.CSVProducer(o.codec()...)
	} else {
		c.env.Probe("codec-reused")
	}
	return c.prod
}

func (c *run) consumer(o opts) runtime.Consumer {
	if c.cons == nil {
		c.cons = runtime.CSVConsumer(o.codec()...)
	} else {
		c.env.Probe("codec-reused")
	}
	return c.cons
}

func errKind(err error) string {
	if err == nil {
		return ""
	}
	var pe *csv.ParseError
	if errors.As(err, &pe) {
		return "parse:" + pe.Err.Error()
	}
	if kernel.IsInjected(err) {
		return "injected"
	}
	return "other:" + err.Error()
}

func errPos(err error) string {
	var pe *csv.ParseError
	if errors.As(err, &pe) {
		return fmt.Sprintf("%d/%d:%d", pe.StartLine, pe.Line, pe.Column)
	}
	return ""
}

// canon is the standard write + parse round trip under the writer options.
func canon(recs [][]string, o opts) [][]string {
	out, err := reparse(writeStd(recs, o), o)
	if err != nil {
		return recs // cannot happen for text written by csv.Writer; keep the records
	}
	return out
}

// compare reports how an outcome differs from a reference ("" = it does not).
func compare(got *outcome, w want, o opts) (class, detail, msg string) {
	switch {
	case w.err != nil && got.err == nil:
		return "C16/malformed-accepted", "", fmt.Sprintf("the standard parse fails with %q, the codec reported success", w.err)
	case w.err == nil && got.err != nil:
		return "C16/spurious-error", "", fmt.Sprintf("the standard parse succeeds (%d records), no fault was injected, the codec failed: %v", len(w.recs), got.err)
	case w.err != nil:
		if !strings.HasPrefix(errKind(got.err), "parse:") {
			return "C16/wrong-error", "not-the-parser-error", fmt.Sprintf("the standard parse fails with %q, the codec failed with %q", w.err, got.err)
		}
		if errKind(got.err) != errKind(w.err) {
			return "C16/wrong-error", "kind", fmt.Sprintf("the standard parse fails with %q, the codec failed with %q", w.err, got.err)
		}
		if errPos(got.err) != errPos(w.err) {
			return "C16/wrong-error", "position", fmt.Sprintf("the standard parse fails with %q, the codec failed with %q", w.err, got.err)
		}
		return "", "", ""
	}
	if got.detail != "" {
		return "C16/records-differ", got.detail, "what the destination held before the call was damaged"
	}
	if got.isText {
		gr, err := reparse(got.text, o)
		if err != nil {
			return "C16/records-differ", "unparsable-output", fmt.Sprintf("output %q does not parse with the writer's separator: %v", clip(got.text), err)
		}
		wr := canon(w.recs, o)
		if !sameRecords(gr, wr) {
			return "C16/records-differ", "", fmt.Sprintf("output %q parses to %d records %s; reference: %d records %s", clip(got.text), len(gr), clipRecs(gr), len(wr), clipRecs(wr))
		}
		return "", "", ""
	}
	if got.aliased != "" {
		// the table's content is meaningless once records share memory; the
		// count and the last record written still are what they are
		if len(got.recs) != len(w.recs) || (len(w.recs) > 0 && !sameRecords(got.recs[len(got.recs)-1:], w.recs[len(w.recs)-1:])) {
			return "C16/records-differ", "aliased", fmt.Sprintf("delivered %d records %s; reference: %d records %s", len(got.recs), clipRecs(got.recs), len(w.recs), clipRecs(w.recs))
		}
		return "", "", ""
	}
	if !sameRecords(got.recs, w.recs) {
		return "C16/records-differ", "", fmt.Sprintf("delivered %d records %s; reference: %d records %s", len(got.recs), clipRecs(got.recs), len(w.recs), clipRecs(w.recs))
	}
	return "", "", ""
}

func clip(b []byte) string {
	if len(b) > 80 {
		return string(b[:80]) + "…"
	}
	return string(b)
}

func clipRecs(r [][]string) string {
	s := fmt.Sprintf("%q", r)
	if len(s) > 160 {
		s = s[:160] + "…"
	}
	return s
}

func join(parts ...string) string {
	var out []string
	for _, p := range parts {
		if p != "" {
			out = append(out, p)
		}
	}
	return strings.Join(out, ":")
}

// judge applies the per-call oracles.  wDefault is the reference under
// default reader options (nil when the kind takes no reader options).
func (c *run) judge(got *outcome, w want, wDefault *want, input string) {
	env := c.env
	o := c.p.Opts
	base := got.side + ":" + got.kind
	if got.panicMsg != "" {
		sig := join(base, got.state, got.fault)
		if got.state == "nil" {
			sig = got.side + "-nil:" + got.kind
		}
		got.deviates = "C16/panic"
		env.Violate("C16/panic", sig, "%s %s (%s) panicked: %s — input %q opts %+v", got.side, got.kind, got.state, got.panicMsg, input, o)
		return
	}
	if got.noReturn {
		got.deviates = "C16/no-return"
		env.Violate("C16/no-return", join(base, endingOf(got, w)), "Produce never returned; %d goroutine(s) started by it remain — input %q", len(got.leaked), input)
		if len(got.leaked) > 0 {
			env.Violate("C16/goroutine-leak", join(base, endingOf(got, w), leakFrames(got.leaked)), "goroutines started by the call are blocked for good:\n%s", trimStack(got.leaked[0]))
		}
		return
	}
	if len(got.leaked) > 0 {
		got.deviates = "C16/goroutine-leak"
		env.Violate("C16/goroutine-leak", join(base, endingOf(got, w), leakFrames(got.leaked)), "%d goroutine(s) started by the call remain after it returned (err=%v):\n%s", len(got.leaked), got.err, trimStack(got.leaked[0]))
	}
	if got.aliased != "" {
		how := "no-reuse"
		if o.Reuse {
			how = "reuse-record"
		}
		env.Violate("C16/records-alias", join(base, how), "delivered records share memory: %s — input %q opts %+v", got.aliased, input, o)
	}
	if got.state == "nil" {
		// a destination that cannot hold anything: no panic is all that is asked
		env.Probe("nil-destination:" + errClass(got.err))
		return
	}
	if got.fault != "" {
		if got.racyErr {
			env.Probe("fault:" + got.fault + ":error")
		} else {
			env.Probe("fault:" + got.fault + ":" + errClass(got.err))
		}
		if got.err == nil {
			got.deviates = "C16/fault-swallowed"
			env.Violate("C16/fault-swallowed", join(base, got.fault), "%s fired, yet the codec reported success — input %q opts %+v", got.fault, input, o)
		}
		return
	}
	if got.writeErr != nil && w.err != nil && errKind(got.writeErr) != errKind(w.err) {
		// Two goroutines of the codec end with two different errors: the copy
		// with the parser's, the WriteTo call with what its write into the pipe
		// was answered.  errgroup reports whichever returns first and nothing
		// orders the two returns, so a schedule exists in which the caller gets
		// the pipe's error instead of the parser's.  (The scripted WriterTo
		// parks before returning, which is why this run itself saw the
		// parser's error; with real goroutines: 111 of 640 000 calls under load.)
		env.Violate("C16/wrong-error", join(base, "error-order-race"), "malformed input (%v): the WriterTo's pending write was answered %q, which its goroutine returns to the group in a race with the parser's error — input %q opts %+v", w.err, got.writeErr, input, o)
	}
	class, detail, msg := compare(got, w, o)
	if class == "" {
		if w.err != nil {
			env.Probe("malformed:" + errKind(w.err))
		} else {
			env.Probe("success")
		}
		return
	}
	got.deviates = class
	if wDefault != nil {
		if c2, _, _ := compare(got, *wDefault, o); c2 == "" {
			got.ignored = true
			got.deviates = "C16/options-ignored"
			env.Violate("C16/options-ignored", join(base, "reader"), "%s %s behaves as if the reader options were the defaults: %s — input %q opts %+v", got.side, got.kind, msg, input, o)
			return
		}
	}
	env.Violate(class, join(base, got.state, detail), "%s %s (%s): %s — input %q opts %+v", got.side, got.kind, got.state, msg, input, o)
}

func errClass(err error) string {
	k := errKind(err)
	if i := strings.Index(k, ":"); i > 0 {
		k = k[:i]
	}
	if k == "" {
		return "ok"
	}
	return k
}

// endingOf names how the call was made to end (for the K1 oracles).
func endingOf(got *outcome, w want) string {
	switch {
	case got.fault != "" && got.fired:
		return got.fault
	case w.err != nil:
		return "malformed"
	case got.fault != "":
		return "truncated" // the planned WriteTo error had not fired yet: the copy ended on the prefix
	}
	return "clean"
}

// agree is the kind-to-kind oracle: two kinds given the same input and
// options must come to the same result.  It does not use the reference, except
// to name the deviating kind first.
func (c *run) agree(a, b *outcome, input string) {
	if a.panicMsg != "" || b.panicMsg != "" || a.fault != "" || b.fault != "" || a.noReturn || b.noReturn || a.state == "nil" || b.state == "nil" {
		return
	}
	if a.aliased != "" || b.aliased != "" {
		// reported on its own; a table whose rows share memory has no content
		// to compare (its count and last row are checked against the reference)
		return
	}
	o := c.p.Opts
	diff := ""
	switch {
	case (a.err == nil) != (b.err == nil):
		diff = fmt.Sprintf("%s: err=%v, %s: err=%v", a.kind, a.err, b.kind, b.err)
	case a.err != nil:
		if errKind(a.err) != errKind(b.err) {
			diff = fmt.Sprintf("%s: %v, %s: %v", a.kind, a.err, b.kind, b.err)
		}
	default:
		ra, rb := a.recs, b.recs
		if a.isText || b.isText {
			ra, rb = c.canonOf(a), c.canonOf(b)
		}
		if ra == nil && a.isText || rb == nil && b.isText {
			// unparsable output: reported by the per-kind oracle
			if (ra == nil) != (rb == nil) {
				diff = fmt.Sprintf("%s: %s, %s: %s", a.kind, clipRecs(ra), b.kind, clipRecs(rb))
			}
		} else if !sameRecords(ra, rb) {
			diff = fmt.Sprintf("%s: %d records %s, %s: %d records %s", a.kind, len(ra), clipRecs(ra), b.kind, len(rb), clipRecs(rb))
		}
	}
	if diff == "" {
		c.env.Probe("kinds-agree")
		return
	}
	first, second := a, b
	if a.deviates == "" && b.deviates != "" {
		first, second = b, a
	}
	c.env.Violate("C16/kinds-disagree", a.side+":"+first.label()+"|"+second.label(), "same input %q, same options %+v: %s", input, o, diff)
}

func (c *run) canonOf(x *outcome) [][]string {
	if x.isText {
		r, err := reparse(x.text, c.p.Opts)
		if err != nil {
			return nil
		}
		if r == nil {
			r = [][]string{}
		}
		return r
	}
	r := canon(x.recs, c.p.Opts)
	if r == nil {
		r = [][]string{}
	}
	return r
}

// ---------------------------------------------------------------------------

func (prop) Run(t *testing.T, tape *kernel.Tape, sc kernel.Scenario) *kernel.Result {
	env := kernel.NewEnv(tape)
	res := &kernel.Result{}
	var p *plan
	if sc.Name == "sweep" {
		p = sweepPlan(sc)
	} else {
		if tape.Choose(25, "overlap-mode") == 24 {
			return runOverlap(t, tape)
		}
		p = genPlan(tape)
	}
	res.Summary = p.String()
	c := &run{t: t, env: env, tape: tape, p: p, res: res}
	if sc.Name != "sweep" && tape.Bool(6, "same-table-twice") {
		c.sameTableTwice()
	}
	text := []byte(p.Text)
	var produced *outcome
	if p.Mode != modeConsume {
		produced = c.producerPart(text)
	}
	if p.Mode != modeProduce {
		in := text
		if p.Mode == modeChain && produced != nil && produced.err == nil && produced.panicMsg == "" && !produced.noReturn && produced.fault == "" {
			in = produced.text
			env.Probe("chain")
		}
		c.consumerPart(in)
	}
	if sc.Name != "sweep" && len(env.Viol) == 0 {
		c.callerDialect(text)
	}
	res.FromEnv(env)
	return res
}

func defaultReaderOpts(o opts) opts {
	o.RComma, o.RComment, o.Lazy, o.Trim, o.FPR = 0, 0, false, false, 0
	return o
}

func (c *run) skipProbe(text []byte, w want) {
	o := c.p.Opts
	if o.Skip == 0 {
		return
	}
	// the literal reading: drop the first s physical lines, then parse
	rest := text
	for i := 0; i < o.Skip && len(rest) > 0; i++ {
		j := bytes.IndexByte(rest, '\n')
		if j < 0 {
			rest = nil
			break
		}
		rest = rest[j+1:]
	}
	lr, lerr := parseStd(rest, o)
	if (lerr == nil) != (w.err == nil) || (lerr == nil && !sameRecords(lr, w.recs)) {
		c.env.Probe("skip:line-reading-differs")
	} else {
		c.env.Probe("skip:line-reading-same")
	}
}

func (c *run) producerPart(text []byte) *outcome {
	p, o := c.p, c.p.Opts
	parsed, perr := parseStd(text, o)
	wText := want{recs: dropFirst(parsed, o.Skip), err: perr}
	var wDef *want
	if o.readerNonDefault() {
		dr, derr := parseStd(text, defaultReaderOpts(o))
		wDef = &want{recs: dropFirst(dr, o.Skip), err: derr}
	}
	table := parsed
	if p.OwnTable {
		table = p.Table
	}
	wTable := want{recs: dropFirst(table, o.Skip)}
	c.skipProbe(text, wText)
	if perr == nil && !sameRecords(canon(wText.recs, o), wText.recs) {
		c.env.Probe("canon:lossy")
	}
	refFor := func(kind int) (want, *want) {
		if srcIsRecords(kind) {
			return wTable, nil
		}
		return wText, wDef
	}
	input := func(kind int) string {
		if srcIsRecords(kind) {
			return clipRecs(table)
		}
		return clip(text)
	}

	prim := c.produce(&p.Src, "src", text, table)
	w, wd := refFor(p.Src.Kind)
	c.judge(prim, w, wd, input(p.Src.Kind))

	peerPlan := srcPlan{Kind: p.PeerSrc, RecErrAt: -1, SinkFailAt: -1, In: streamPlan{ErrAt: -1}}
	peer := c.produce(&peerPlan, "peer-src", text, table)
	w2, wd2 := refFor(peerPlan.Kind)
	c.judge(peer, w2, wd2, input(peerPlan.Kind))
	if !p.OwnTable || srcIsRecords(p.Src.Kind) == srcIsRecords(peerPlan.Kind) {
		c.agree(prim, peer, input(p.Src.Kind))
	}
	return prim
}

// callerDialect: separator, comment character and fields-per-record set by the caller on its own *csv.Reader /
// *csv.Writer (and not given to the codec) must work like the same settings given to the codec as options.
func (c *run) callerDialect(text []byte) {
	o := c.p.Opts
	if o.RComma == 0 && o.RComment == 0 && o.FPR == 0 && o.WComma == 0 {
		return
	}
	c.env.Probe("caller-configured-dialect")
	run := func(f func() error) (err error, pm string) {
		pm = kernel.Catch(func() { err = f() })
		return
	}
	// producer: reference = every option given to the codec, in-memory source
	var ref, got bytes.Buffer
	refErr, pm1 := run(func() error { return runtime.CSVProducer(o.codec()...).Produce(&ref, string(text)) })
	oc := o
	oc.RComma, oc.RComment, oc.FPR, oc.Explicit = 0, 0, 0, false
	cr := csv.NewReader(bytes.NewReader(text))
	if o.RComma != 0 {
		cr.Comma = o.RComma
	}
	cr.Comment, cr.FieldsPerRecord = o.RComment, o.FPR
	gotErr, pm2 := run(func() error { return runtime.CSVProducer(oc.codec()...).Produce(&got, cr) })
	switch {
	case pm1 != "" || pm2 != "":
		c.env.Violate("C16/panic", "source:csv-reader:caller-dialect", "producer panicked: %s%s", pm1, pm2)
	case (refErr == nil) != (gotErr == nil):
		c.env.Violate("C16/kinds-disagree", "source:csv-reader:caller-dialect", "input %s: options given to the codec → err=%v; the same separator/comment/fields-per-record set on the caller's *csv.Reader → err=%v", clip(text), refErr, gotErr)
	case refErr == nil && !bytes.Equal(ref.Bytes(), got.Bytes()):
		c.env.Violate("C16/kinds-disagree", "source:csv-reader:caller-dialect", "input %s: options given to the codec produce %s; the same dialect set on the caller's *csv.Reader produces %s", clip(text), clip(ref.Bytes()), clip(got.Bytes()))
	}
	// consumer: the caller's *csv.Writer carries the separator
	if o.WComma == 0 {
		return
	}
	var ref2, got2 bytes.Buffer
	refErr2, pm3 := run(func() error { return runtime.CSVConsumer(o.codec()...).Consume(bytes.NewReader(text), &ref2) })
	ow := o
	ow.WComma, ow.Explicit = 0, false
	cw := csv.NewWriter(&got2)
	cw.Comma = o.WComma
	gotErr2, pm4 := run(func() error { return runtime.CSVConsumer(ow.codec()...).Consume(bytes.NewReader(text), cw) })
	switch {
	case pm3 != "" || pm4 != "":
		c.env.Violate("C16/panic", "dest:csv-writer:caller-dialect", "consumer panicked: %s%s", pm3, pm4)
	case (refErr2 == nil) != (gotErr2 == nil):
		c.env.Violate("C16/kinds-disagree", "dest:csv-writer:caller-dialect", "input %s: writer separator given to the codec → err=%v; set on the caller's *csv.Writer → err=%v", clip(text), refErr2, gotErr2)
	case refErr2 == nil && !bytes.Equal(ref2.Bytes(), got2.Bytes()):
		c.env.Violate("C16/kinds-disagree", "dest:csv-writer:caller-dialect", "input %s: writer separator given to the codec delivers %s; set on the caller's *csv.Writer delivers %s", clip(text), clip(ref2.Bytes()), clip(got2.Bytes()))
	}
}

func (c *run) consumerPart(text []byte) {
	p, o := c.p, c.p.Opts
	parsed, perr := parseStd(text, o)
	w := want{recs: dropFirst(parsed, o.Skip), err: perr}
	var wDef *want
	if o.readerNonDefault() {
		dr, derr := parseStd(text, defaultReaderOpts(o))
		wDef = &want{recs: dropFirst(dr, o.Skip), err: derr}
	}
	c.skipProbe(text, w)
	if perr == nil && !sameRecords(canon(w.recs, o), w.recs) {
		c.env.Probe("canon:lossy")
	}
	prim := c.consume(&p.Dst, "dst", text, w)
	c.judge(prim, w, wDef, clip(text))
	// what was delivered belongs to the caller: later calls of the codec must not change it
	savedText := append([]byte(nil), prim.text...)
	savedRecs := cloneRecs(prim.recs)
	if prim.err == nil && prim.panicMsg == "" {
		other := []byte("zz,yy,xx\nww,vv,uu\ntt,ss,rr\nqq,pp,oo\n")
		dPlan := dstPlan{Kind: dstBytes, SinkFailAt: -1, RecFailAt: -1, RFFailAt: -1, In: streamPlan{ErrAt: -1}}
		po, perr2 := parseStd(other, o)
		c.consume(&dPlan, "later-call", other, want{recs: dropFirst(po, o.Skip), err: perr2})
		if !bytes.Equal(savedText, prim.text) || !sameRecords(savedRecs, prim.recs) {
			c.env.Violate("C16/records-differ", join("dest", prim.kind, "changed-by-a-later-call"),
				"what was delivered into the %s destination changed when the codec was used again: was %s, now %s", prim.kind, clip(savedText), clip(prim.text))
		}
	}
	peerPlan := dstPlan{Kind: p.PeerDst, SinkFailAt: -1, RecFailAt: -1, RFFailAt: -1, In: streamPlan{ErrAt: -1}}
	peer := c.consume(&peerPlan, "peer-dst", text, w)
	c.judge(peer, w, wDef, clip(text))
	prim.text, prim.recs = savedText, savedRecs
	c.agree(prim, peer, clip(text))
}

// ---------------------------------------------------------------------------
// one producer call

func (c *run) stream(name string, data []byte, sp *streamPlan) *kernel.Stream {
	st := kernel.NewStream(c.env, name, data)
	if sp.ErrAt >= 0 && sp.ErrAt <= len(data) {
		st.Data = data[:sp.ErrAt]
		st.Term = &kernel.InjectedError{What: fmt.Sprintf("read error at %d", sp.ErrAt)}
	}
	st.ChunkMode = sp.Chunk
	st.FixedChunk = sp.Fixed
	st.ZeroReads = sp.Zero
	if st.ZeroReads > 3 {
		st.ZeroReads = 3
	}
	st.TermWithData = sp.WithData
	return st
}

const usedPrefix = "PRE\n"

func (c *run) produce(sp *srcPlan, name string, text []byte, table [][]string) *outcome {
	env, o := c.env, c.p.Opts
	out := &outcome{side: "source", kind: srcNames[sp.Kind], isText: true}
	sink := kernel.NewSink(env, name+"-sink")
	if sp.SinkUsed {
		sink.Buf = append(sink.Buf, usedPrefix...)
		out.state = "used"
	}
	if sp.SinkFailAt >= 0 {
		sink.FailAt = len(sink.Buf) + sp.SinkFailAt
	}
	var w io.Writer = sink
	if sp.SinkCloser {
		w = kernel.SinkCloser{Sink: sink}
	}
	var (
		src     any
		st      *kernel.Stream
		rr      *recReader
		bm      *binMarshaler
		wt      *writerTo
		mustErr bool
	)
	switch sp.Kind {
	case srcBytes:
		b := append([]byte(nil), text...)
		src = b
		if sp.Ptr {
			src = &b
		}
	case srcString:
		s := string(text)
		src = s
		if sp.Ptr {
			src = &s
		}
	case srcRecords:
		tb := cloneRecs(table)
		src = tb
		if sp.Ptr {
			src = &tb
		}
	case srcIOReader, srcCSVReader:
		st = c.stream(name+"-in", text, &sp.In)
		mustErr = st.Term != nil
		var r io.Reader = kernel.ReaderOnly{S: st}
		if sp.In.Closer {
			r = st
		}
		src = r
		if sp.Kind == srcCSVReader {
			cr := csv.NewReader(r)
			if sp.PreCfg {
				o.configureReader(cr)
				cr.ReuseRecord = o.Reuse
			}
			src = cr
		}
	case srcCSVReaderIface:
		rr = &recReader{env: env, name: name + "-csvreader", recs: cloneRecs(table), errAt: sp.RecErrAt}
		if rr.errAt > len(rr.recs) {
			rr.errAt = len(rr.recs)
		}
		mustErr = rr.errAt >= 0
		src = rr
	case srcBinMarshaler:
		bm = &binMarshaler{env: env, name: name + "-marshaler", data: text, fail: sp.MarshalFail}
		mustErr = bm.fail
		src = bm
	case srcWriterTo:
		wt = &writerTo{env: env, name: name + "-writerto", data: text, chunkMode: sp.In.Chunk, fixed: sp.In.Fixed, errAt: sp.In.ErrAt, errKind: sp.In.ErrKind}
		if wt.errAt > len(text) {
			wt.errAt = len(text)
		}
		mustErr = wt.errAt >= 0
		src = wt
	}
	prod := c.producer(o)
	sinkFaults := env.Faults["write-error"]
	env.Log(name, "Produce(%s) skip=%d", out.kind, o.Skip)
	if sp.Kind == srcWriterTo {
		c.produceInBubble(prod, w, src, out)
	} else {
		out.panicMsg = kernel.Catch(func() { out.err = prod.Produce(w, src) })
	}
	errText := fmt.Sprint(out.err)
	if wt != nil && mustErr && out.err != nil {
		// the WriterTo's own error and the parser's verdict on the truncated
		// input are reported by two goroutines; which one the group saw first
		// is the Go scheduler's choice, so the history does not say
		errText = "an error (the injected WriteTo error, or the parser's on the truncated input)"
		out.racyErr = true
	}
	env.Log(name, "Produce(%s) → err=%s panic=%q sink=%d bytes", out.kind, errText, out.panicMsg, len(sink.Buf))
	switch {
	case env.Faults["write-error"] > sinkFaults:
		out.fault = "write-error"
	case st != nil && mustErr:
		out.fault = "read-error"
	case rr != nil && mustErr:
		out.fault = "csvreader-error"
	case bm != nil && mustErr:
		out.fault = "marshal-error"
	case wt != nil && mustErr:
		out.fault = "writeto-error"
	}
	if wt != nil {
		out.writeErr = wt.writeErr
	}
	out.fired = out.fault == "write-error" || (st != nil && st.TermDelivered) || (rr != nil && rr.fired) || (bm != nil && bm.fired) || (wt != nil && wt.fired)
	buf := sink.Buf
	if sp.SinkUsed {
		if !bytes.HasPrefix(buf, []byte(usedPrefix)) {
			out.detail = "prefix-clobbered"
		} else {
			buf = buf[len(usedPrefix):]
		}
	}
	out.text = buf
	if sp.SinkCloser && o.Closes {
		if sink.Closed > 0 {
			env.Probe("sink-closed-on-request")
		} else {
			env.Probe("sink-not-closed-on-request")
		}
	}
	return out
}

func (c *run) produceInBubble(prod runtime.Producer, w io.Writer, src any, out *outcome) {
	env := c.env
	returned := false
	kernel.RunBubble(c.t, env, func(k *kernel.K1) {
		k.MaxSteps = 60000
		k.Go("caller", func() {
			out.panicMsg = kernel.Catch(func() { out.err = prod.Produce(w, src) })
			returned = true
		})
		// Run returns at a quiescence with no registered task alive and nothing
		// parked (it keeps releasing operations of the library's own goroutines
		// until then).  The codec sets no timers, so there is nothing for
		// SettleAll's day-long sleeps to fire; not calling it keeps the
		// simulated time honest (zero unless the run is stuck).
		k.Run()
		// goroutines of the codec that are still there; the calling task itself
		// (when Produce never returned) is reported as no-return, not as a leak
		for _, g := range kernel.LeakedGoroutines("github.com/go-openapi/runtime.") {
			if !strings.Contains(g, "props/c16.(*run).produceInBubble") {
				out.leaked = append(out.leaked, g)
			}
		}
		sort.Slice(out.leaked, func(i, j int) bool { return leakFrame(out.leaked[i]) < leakFrame(out.leaked[j]) })
		if k.Overrun {
			c.res.Infra = "step budget exceeded"
		}
		if k.Stuck {
			env.Probe("bubble-stuck")
		}
		env.Probe("bubble-run")
	})
	if env.Interleaved {
		env.Probe("bubble-run-with-operations-parked-together")
	}
	_ = env.History() // drain what the bubble logged
	env.K1 = nil
	out.noReturn = !returned
}

// ---------------------------------------------------------------------------
// one consumer call

func (c *run) consume(dp *dstPlan, name string, text []byte, w want) *outcome {
	env, o := c.env, c.p.Opts
	out := &outcome{side: "dest", kind: dstNames[dp.Kind], state: "fresh"}
	st := c.stream(name+"-in", text, &dp.In)
	var r io.Reader = kernel.ReaderOnly{S: st}
	if dp.In.Closer {
		r = st
	}
	n := len(w.recs)
	stdLen := len(writeStd(w.recs, o))
	state := dp.State
	var (
		dest    any
		collect func()
		sink    *kernel.Sink
		rw      *recWriter
		rf      *readerFrom
		bu      *binUnmarshaler
	)
	junk := func() []byte {
		switch state {
		case stShorter:
			return []byte("x")
		case stEqual:
			return bytes.Repeat([]byte("x"), stdLen)
		case stLonger:
			return bytes.Repeat([]byte("x"), stdLen+1+4*dp.Extra)
		}
		return nil
	}
	switch dp.Kind {
	case dstBytes:
		out.isText = true
		if state == stNil {
			dest = (*[]byte)(nil)
			break
		}
		b := junk()
		dest = &b
		collect = func() { out.text = b }
	case dstString:
		out.isText = true
		if state == stNil {
			dest = (*string)(nil)
			break
		}
		s := string(junk())
		dest = &s
		collect = func() { out.text = []byte(s) }
	case dstRecords:
		if state == stNil {
			dest = (*[][]string)(nil)
			break
		}
		var tb [][]string
		m := -1
		switch state {
		case stShorter:
			m = n / 2
		case stEqual:
			m = n
		case stLonger:
			m = n + 1 + dp.Extra
		}
		if m >= 0 {
			tb = make([][]string, m, m+dp.Cap)
			for i := range tb {
				tb[i] = []string{"old", fmt.Sprint(i)}
			}
		}
		dest = &tb
		collect = func() {
			out.recs = cloneRecs(tb)
			out.aliased = aliasing(tb)
		}
	case dstIOWriter, dstCSVWriter:
		out.isText = true
		sink = kernel.NewSink(env, name+"-sink")
		used := state == stShorter || state == stEqual || state == stLonger
		if dp.Kind == dstCSVWriter && state == stNil {
			dest = (*csv.Writer)(nil)
			break
		}
		if state == stNil {
			state = stFresh
		}
		if dp.Kind == dstIOWriter {
			if used {
				sink.Buf = append(sink.Buf, usedPrefix...)
			}
			dest = sink
		} else {
			cw := csv.NewWriter(sink)
			if dp.PreCfg {
				o.configureWriter(cw)
			}
			if used {
				_ = cw.Write([]string{"PRE"})
				cw.Flush()
				sink.Buf = []byte(usedPrefix) // one prefix whatever the line ending and separator
			}
			dest = cw
		}
		if dp.SinkFailAt >= 0 {
			sink.FailAt = len(sink.Buf) + dp.SinkFailAt
		}
		collect = func() {
			buf := sink.Buf
			if used {
				if !bytes.HasPrefix(buf, []byte(usedPrefix)) {
					out.detail = "prefix-clobbered"
				} else {
					buf = buf[len(usedPrefix):]
				}
			}
			out.text = buf
		}
		if used {
			state = 5
		}
	case dstCSVWriterIface:
		rw = &recWriter{env: env, name: name + "-csvwriter", failAt: dp.RecFailAt, errAtEnd: dp.ErrAtEnd}
		used := state == stShorter || state == stEqual || state == stLonger
		if used {
			rw.delivered = [][]string{{"PRE", "x"}}
			state = 5
		} else {
			state = stFresh
		}
		dest = rw
		collect = func() {
			d := rw.delivered
			if used {
				if len(d) == 0 || !sameRecords(d[:1], [][]string{{"PRE", "x"}}) {
					out.detail = "prefix-clobbered"
				} else {
					d = d[1:]
				}
			}
			out.recs = d
		}
	case dstReaderFrom:
		out.isText = true
		state = stFresh
		rf = &readerFrom{env: env, name: name + "-readerfrom", chunk: dp.RFChunk, failAt: dp.RFFailAt}
		dest = rf
		collect = func() { out.text = rf.buf }
	case dstBinUnmarshaler:
		out.isText = true
		state = stFresh
		bu = &binUnmarshaler{env: env, name: name + "-unmarshaler", fail: dp.UnmarshalFail}
		dest = bu
		collect = func() { out.text = bu.data }
	}
	if state == 5 {
		out.state = "used"
	} else {
		out.state = stateNames[state]
	}
	cons := c.consumer(o)
	sinkFaults := env.Faults["write-error"]
	env.Log(name, "Consume(%s,%s) skip=%d", out.kind, out.state, o.Skip)
	out.panicMsg = kernel.Catch(func() { out.err = cons.Consume(r, dest) })
	env.Log(name, "Consume(%s,%s) → err=%v panic=%q", out.kind, out.state, out.err, out.panicMsg)
	switch {
	case env.Faults["write-error"] > sinkFaults:
		out.fault = "write-error"
	case rw != nil && rw.fired:
		out.fault = "csvwriter-error"
	case rf != nil && rf.fired:
		out.fault = "readerfrom-error"
	case bu != nil && bu.fired:
		out.fault = "unmarshal-error"
	case st.Term != nil:
		out.fault = "read-error"
	}
	if out.panicMsg == "" && out.err == nil && collect != nil {
		collect()
	}
	if dp.In.Closer && o.Closes {
		if st.Closed > 0 {
			env.Probe("input-closed-on-request")
		} else {
			env.Probe("input-not-closed-on-request")
		}
	}
	return out
}

// aliasing reports whether writing to one delivered record (its fields, or
// the spare capacity behind them) shows through another one.
func aliasing(recs [][]string) string {
	snap := cloneRecs(recs)
	for i := range recs {
		if cap(recs[i]) == 0 {
			continue
		}
		full := recs[i][:cap(recs[i])]
		saved := append([]string(nil), full...)
		for f := range full {
			full[f] = "\x00mutated"
		}
		hit := -1
		for j := range recs {
			if j == i {
				continue
			}
			for f := range recs[j] {
				if recs[j][f] != snap[j][f] {
					hit = j
				}
			}
		}
		copy(full, saved)
		if hit >= 0 {
			return fmt.Sprintf("writing to record %d changed record %d", i, hit)
		}
	}
	return ""
}

func leakFrames(stacks []string) string {
	var fs []string
	for _, g := range stacks {
		f := leakFrame(g)
		if len(fs) == 0 || fs[len(fs)-1] != f {
			fs = append(fs, f)
		}
	}
	return strings.Join(fs, "+")
}

func leakFrame(stack string) string {
	for _, l := range strings.Split(stack, "\n") {
		if strings.HasPrefix(l, "github.com/go-openapi/runtime.") {
			l = strings.TrimPrefix(l, "github.com/go-openapi/runtime.")
			if j := strings.LastIndex(l, "("); j > 0 {
				l = l[:j]
			}
			return l
		}
	}
	return "?"
}

func trimStack(s string) string {
	lines := strings.Split(s, "\n")
	if len(lines) > 16 {
		lines = lines[:16]
	}
	return strings.Join(lines, "\n")
}
