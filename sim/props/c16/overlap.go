package c16

import (
	"fmt"
	"strings"
	"testing"

	"github.com/go-openapi/runtime"

	"verif.local/sim/kernel"
)

// runOverlap: one CSV consumer used by 2–3 overlapping calls into record
// tables (a codec is built once and shared by all requests).  K1 bubble: the
// scripted input streams park, so the tape decides how the calls interleave.
func runOverlap(t *testing.T, tape *kernel.Tape) *kernel.Result {
	env := kernel.NewEnv(tape)
	res := &kernel.Result{}
	n := 2 + tape.Choose(2, "overlapping-calls")
	texts := make([]string, n)
	want := make([][][]string, n)
	tables := make([][][]string, n)
	errs := make([]error, n)
	panics := make([]string, n)
	for i := range texts {
		rows := 1 + tape.Choose(5, "rows")
		var sb strings.Builder
		for r := 0; r < rows; r++ {
			rec := []string{fmt.Sprintf("c%d-r%d-a", i, r), fmt.Sprintf("c%d-r%d-b", i, r)}
			want[i] = append(want[i], rec)
			sb.WriteString(strings.Join(rec, ",") + "\n")
		}
		texts[i] = sb.String()
	}
	res.Summary = fmt.Sprintf("overlap: %d concurrent Consume calls on one CSV consumer into record tables", n)
	env.Fault("overlapping-calls")
	kernel.RunBubble(t, env, func(k *kernel.K1) {
		cons := runtime.CSVConsumer()
		for i := 0; i < n; i++ {
			i := i
			st := kernel.NewStream(env, fmt.Sprintf("in%d", i), []byte(texts[i]))
			st.ChunkMode = kernel.ChunkFixed
			st.FixedChunk = 1 + tape.Choose(12, "chunk")
			k.Go(fmt.Sprintf("call%d", i), func() {
				panics[i] = kernel.Catch(func() { errs[i] = cons.Consume(st, &tables[i]) })
			})
		}
		k.Run()
		if k.Stuck || k.Overrun {
			res.Infra = "overlap run did not finish"
			return
		}
		k.SettleAll()
	})
	if res.Infra != "" {
		res.FromEnv(env)
		return res
	}
	for i := 0; i < n; i++ {
		switch {
		case panics[i] != "":
			env.Violate("C16/panic", "dest:records:overlapping-calls", "call %d panicked: %s", i, panics[i])
		case errs[i] != nil:
			env.Violate("C16/spurious-error", "dest:records:overlapping-calls", "call %d failed: %v", i, errs[i])
		case !sameRecords(tables[i], want[i]):
			env.Violate("C16/records-differ", "dest:records:overlapping-calls", "call %d delivered %s, its input holds %s (%d calls overlapping on one consumer)", i, clipRecs(tables[i]), clipRecs(want[i]), n)
		}
	}
	res.FromEnv(env)
	return res
}

// sameTableTwice: records a caller kept from an earlier Consume into a table
// variable must not be rewritten when the same variable receives the next page.
func (c *run) sameTableTwice() {
	cons := runtime.CSVConsumer()
	var table [][]string
	var err1, err2 error
	if pm := kernel.Catch(func() { err1 = cons.Consume(strings.NewReader("a,b,c\nd,e,f\n"), &table) }); pm != "" || err1 != nil {
		return
	}
	kept := append([][]string(nil), table...)
	snapshot := cloneRecs(kept)
	if pm := kernel.Catch(func() { err2 = cons.Consume(strings.NewReader("x,y\nz,w\nq,r\n"), &table) }); pm != "" {
		c.env.Violate("C16/panic", "dest:records:same-table-again", "second Consume into the same table panicked: %s", pm)
		return
	}
	_ = err2
	if !sameRecords(kept, snapshot) {
		c.env.Violate("C16/records-alias", "dest:records:rows-kept-from-an-earlier-call-rewritten",
			"records kept from the first Consume into a table were rewritten by the next Consume into the same variable: were %s, now %s", clipRecs(snapshot), clipRecs(kept))
	}
	c.env.Probe("same-table-twice")
}
