package c16

import (
	"fmt"
	"io"

	"verif.local/sim/kernel"
)

// Scripted source and destination objects of the kinds the CSV codec
// dispatches on.  Each implements exactly one of the interfaces so that the
// codec's type switch lands on the kind under test.

func cloneRec(r []string) []string {
	if r == nil {
		return nil
	}
	return append(make([]string, 0, len(r)), r...)
}

func cloneRecs(rs [][]string) [][]string {
	out := make([][]string, len(rs))
	for i, r := range rs {
		out[i] = cloneRec(r)
	}
	return out
}

// recReader is a runtime.CSVReader (and nothing else): a record iterator that
// may fail at a chosen record.
type recReader struct {
	env     *kernel.Env
	name    string
	recs    [][]string
	i       int
	errAt   int // -1: never; k: the read that would return record k fails instead
	fired   bool
	eofSeen bool
	past    int
}

func (r *recReader) Read() ([]string, error) {
	if r.errAt >= 0 && r.i == r.errAt {
		if !r.fired {
			r.fired = true
			r.env.Fault("csvreader-error")
		}
		r.env.Log(r.name, "Read → injected error at record %d", r.i)
		return nil, &kernel.InjectedError{What: "CSVReader failed"}
	}
	if r.i >= len(r.recs) {
		if r.eofSeen && r.past < 2 {
			// the iterator was told to stop and is asked again: it moves on to the next record set
			r.past++
			r.env.Fault("read-past-the-end-marker")
			r.env.Log(r.name, "Read after EOF → a record of the next set")
			return []string{"READ", "PAST", "THE", "END"}, nil
		}
		r.eofSeen = true
		r.env.Log(r.name, "Read → EOF")
		return nil, io.EOF
	}
	rec := r.recs[r.i]
	r.i++
	return rec, nil
}

// recWriter is a runtime.CSVWriter (and nothing else).  Like csv.Writer it is
// buffered: records count as delivered once Flush has been called, and it
// encodes (here: copies) a record during Write.
type recWriter struct {
	env       *kernel.Env
	name      string
	pending   [][]string
	delivered [][]string
	failAt    int  // -1: never; k: the Write of the k-th new record fails
	errAtEnd  bool // Error() reports a failure
	writes    int
	flushes   int
	fired     bool
}

func (w *recWriter) Write(rec []string) error {
	if w.failAt >= 0 && w.writes == w.failAt {
		w.fired = true
		w.env.Fault("csvwriter-write-error")
		w.env.Log(w.name, "Write #%d → injected error", w.writes)
		return &kernel.InjectedError{What: "CSVWriter.Write failed"}
	}
	w.writes++
	w.pending = append(w.pending, cloneRec(rec))
	return nil
}

func (w *recWriter) Flush() {
	w.flushes++
	w.delivered = append(w.delivered, w.pending...)
	w.pending = nil
	w.env.Log(w.name, "Flush #%d (%d delivered)", w.flushes, len(w.delivered))
}

func (w *recWriter) Error() error {
	if w.errAtEnd {
		w.fired = true
		w.env.Fault("csvwriter-error")
		w.env.Log(w.name, "Error → injected")
		return &kernel.InjectedError{What: "CSVWriter.Error reports a failed flush"}
	}
	return nil
}

// readerFrom is an io.ReaderFrom (and nothing else).
type readerFrom struct {
	env    *kernel.Env
	name   string
	buf    []byte
	chunk  int
	failAt int // -1: never; k: fails once k bytes have been taken
	fired  bool
}

func (d *readerFrom) ReadFrom(r io.Reader) (int64, error) {
	var n int64
	c := d.chunk
	if c <= 0 {
		c = 512
	}
	p := make([]byte, c)
	for {
		if d.failAt >= 0 && len(d.buf) >= d.failAt {
			d.fired = true
			d.env.Fault("readerfrom-error")
			d.env.Log(d.name, "ReadFrom → injected error after %d bytes", n)
			return n, &kernel.InjectedError{What: "ReaderFrom failed"}
		}
		lim := len(p)
		if d.failAt >= 0 && d.failAt-len(d.buf) < lim {
			lim = d.failAt - len(d.buf)
		}
		m, err := r.Read(p[:lim])
		d.buf = append(d.buf, p[:m]...)
		n += int64(m)
		if err == io.EOF {
			d.env.Log(d.name, "ReadFrom → %d bytes", n)
			return n, nil
		}
		if err != nil {
			return n, err
		}
	}
}

// binUnmarshaler is an encoding.BinaryUnmarshaler (and nothing else).
type binUnmarshaler struct {
	env   *kernel.Env
	name  string
	data  []byte
	calls int
	fail  bool
	fired bool
}

func (d *binUnmarshaler) UnmarshalBinary(b []byte) error {
	d.calls++
	if d.fail {
		d.fired = true
		d.env.Fault("unmarshal-error")
		d.env.Log(d.name, "UnmarshalBinary(%d bytes) → injected error", len(b))
		return &kernel.InjectedError{What: "UnmarshalBinary failed"}
	}
	d.data = append([]byte(nil), b...)
	d.env.Log(d.name, "UnmarshalBinary(%d bytes)", len(b))
	return nil
}

// binMarshaler is an encoding.BinaryMarshaler (and nothing else).
type binMarshaler struct {
	env   *kernel.Env
	name  string
	data  []byte
	fail  bool
	fired bool
}

func (s *binMarshaler) MarshalBinary() ([]byte, error) {
	if s.fail {
		s.fired = true
		s.env.Fault("marshal-error")
		s.env.Log(s.name, "MarshalBinary → injected error")
		return nil, &kernel.InjectedError{What: "MarshalBinary failed"}
	}
	s.env.Log(s.name, "MarshalBinary → %d bytes", len(s.data))
	return append([]byte(nil), s.data...), nil
}

// writerTo is an io.WriterTo (and nothing else).  It writes its content in
// scripted chunks; every chunk is a scheduling point of the bubble scheduler.
// Like any real WriterTo it stops at the first write error and returns it.
type writerTo struct {
	env       *kernel.Env
	name      string
	data      []byte
	chunkMode int
	fixed     int
	errAt     int // -1: never; k: after k bytes WriteTo returns an injected error
	pos       int
	fired     bool
	writeErr  error // error returned by the destination writer (the pipe)
	scratch   []byte
	errKind   int // the error value WriteTo fails with: 0 private, 1 io.EOF, 2 wraps io.EOF
	returned  bool
}

func (s *writerTo) WriteTo(w io.Writer) (int64, error) {
	end := len(s.data)
	if s.errAt >= 0 && s.errAt < end {
		end = s.errAt
	}
	for s.pos < end {
		n := end - s.pos
		op := s.env.Begin(s.name, "chunk", nil, func(t *kernel.Tape) {
			switch s.chunkMode {
			case kernel.ChunkOne:
				n = 1
			case kernel.ChunkFixed:
				if s.fixed > 0 && n > s.fixed {
					n = s.fixed
				}
			case kernel.ChunkRandom:
				switch t.Choose(3, "wt-chunk") {
				case 1:
					n = 1
				case 2:
					if c := 2 + t.Choose(6, "wt-chunk-small"); n > c {
						n = c
					}
				}
			}
		})
		op.End("%d bytes at %d", n, s.pos)
		// like io.Copy, stream through one scratch buffer that is refilled as soon as a write has returned: a writer
		// must not hold on to the slice it was given
		if cap(s.scratch) < n {
			s.scratch = make([]byte, n)
		}
		chunk := s.scratch[:n]
		copy(chunk, s.data[s.pos:s.pos+n])
		m, err := w.Write(chunk)
		for i := range chunk {
			chunk[i] = '#'
		}
		s.pos += m
		if err != nil {
			s.writeErr = err
			// a scheduling point before returning: by then the consuming side
			// has finished for good, so which error the group reports first
			// does not depend on the Go scheduler
			op := s.env.Begin(s.name, "stop", nil, nil)
			op.End("destination refused the write after %d bytes: %v", s.pos, err)
			s.returned = true
			return int64(s.pos), err
		}
	}
	if s.errAt >= 0 {
		op := s.env.Begin(s.name, "fail", nil, nil)
		s.fired = true
		s.env.Fault("writeto-error")
		op.End("injected error after %d bytes", s.pos)
		s.returned = true
		switch s.errKind {
		case 1:
			// "my own source ended early", said with the standard end marker: for the caller of WriteTo it is an error like any other
			s.env.Fault("writeto-error-is-io.EOF")
			return int64(s.pos), io.EOF
		case 2:
			s.env.Fault("writeto-error-wraps-io.EOF")
			return int64(s.pos), fmt.Errorf("WriteTo: source ended early: %w", io.EOF)
		}
		return int64(s.pos), &kernel.InjectedError{What: "WriteTo failed"}
	}
	op := s.env.Begin(s.name, "done", nil, nil)
	op.End("%d bytes written", s.pos)
	s.returned = true
	return int64(s.pos), nil
}
