// Package c10: client URL construction.  The simulation target is the
// order clause: buildHTTP walks three maps (path parameters, the pattern's
// query, the base path's query) whose iteration order Go randomises; under the
// instrumented map ranges every run fixes the order, and for ≤4 path
// parameters all orders are enumerated for the same inputs.  The reference URL
// model rides on the same executions (input sampling, said plainly).
package c10

import (
	"context"
	stderrors "errors"
	"fmt"
	"net/http"
	"net/url"
	"path"
	"regexp"
	"sort"
	"strings"
	"testing"

	"github.com/go-openapi/runtime"
	"github.com/go-openapi/runtime/client"
	"github.com/go-openapi/strfmt"

	"verif.local/sim/kernel"
	"verif.local/simrt"
)

type prop struct{}

func init() { kernel.Register(prop{}) }

func (prop) ID() string     { return "C10" }
func (prop) Engine() string { return "SEQ" }
func (prop) Level() string  { return "exploration" }

func (prop) Budget(tier string) int {
	if tier == "thorough" {
		return 20000000
	}
	return 800000
}

func (prop) Sweep(string) []kernel.Scenario { return nil }

func (prop) Describe() kernel.Description {
	return kernel.Description{
		Rule: "Dimensions added with the seed waves: an auth writer that reads the request and scribbles on what the getters hand out; earlier requests on the same Runtime (other pattern, same pattern with all placeholders set, a failing params writer, an exchange that died over https) and a later one; a placeholder left unset; placeholder names that are not identifiers; the request as the transport sees it when built through Submit, WithOpenTelemetry and WithOpenTracing; the reference owns its value slices. " +
			"one run = one (base path with optional query, path pattern with 0–4 placeholders / repeated placeholder / trailing slash / static query, value map, " +
			"caller query parameters, scheme lists) drawn from the tape; Runtime.CreateHttpRequest is executed once per permutation of the iteration order " +
			"of the path-parameter map (all n! orders for n≤4; the other map ranges take a tape-chosen order) and every resulting URL must equal the others and " +
			"the reference model (simultaneous substitution of url.PathEscape(value) into path.Join(base, pattern), trailing slash kept, query = caller ∪ pattern ∪ base " +
			"with that precedence, https when offered among several). distinct = distinct (inputs, order) history signature; non-trivial = ≥2 iteration orders were " +
			"compared or an awkward value class ('/', '?', '#', '%', '..', another placeholder's spelling, empty) was substituted.",
		Real:  []string{"client.Runtime.CreateHttpRequest / createHttpRequest / pickScheme", "client.request.buildHTTP (URL tail)", "net/url"},
		Stubs: []string{"params writer (scripted)", "map iteration order (simulator-chosen through the instrumented ranges)"},
		Assumptions: []string{
			"static parts of base path and pattern use [a-z0-9._-] only; placeholders are {name} with simple names",
			"for the pattern \"/\" the trailing-slash clause is not judged (the pattern has no segment whose slash could be kept)",
			"when several schemes are offered and none is https, any offered scheme is accepted",
		},
	}
}

var valueAlphabet = []string{"a", "b", "1", "/", "?", "#", "%", "..", ".", " ", "+", ":", "*", "{", "}", ";", "=", "&", "é", "\xff", "%2F", "{b}", "{a}", "{id}", "@", ","}

type writer struct {
	path  map[string]string
	order []string
	query url.Values
	qkeys []string
}

func (w *writer) WriteToRequest(req runtime.ClientRequest, _ strfmt.Registry) error {
	for _, k := range w.order {
		_ = req.SetPathParam(k, w.path[k])
	}
	for _, k := range w.qkeys {
		_ = req.SetQueryParam(k, append([]string(nil), w.query[k]...)...) // the request gets its own copy: the reference keeps its own
	}
	return nil
}

func genSeg(t *kernel.Tape) string {
	return []string{"v1", "things", "a", "b.c", "x-y", "0"}[t.Choose(6, "seg")]
}

func (prop) Run(t *testing.T, tape *kernel.Tape, sc kernel.Scenario) *kernel.Result {
	env := kernel.NewEnv(tape)
	res := &kernel.Result{}
	defer kernel.UninstallOrder()

	// ---- inputs
	names := []string{"a", "b", "id", "ab"}
	if tape.Bool(3, "placeholder-names-that-are-not-identifiers") {
		names = []string{"org-id", "repo.name", "id", "a_b"}
	} else if tape.Bool(4, "placeholder-names-that-differ-only-in-case") {
		// {id} and {ID} are two parameters: names are matched as written
		names = []string{"id", "ID", "Id", "a"}
	}
	nph := tape.Choose(5, "nplaceholders")
	var patSegs []string
	used := []string{}
	nseg := 1 + tape.Choose(4, "nseg")
	for i := 0; i < nseg || len(used) < nph; i++ {
		if len(used) < nph && (i >= nseg || tape.Bool(2, "seg-is-ph")) {
			var nm string
			if len(used) > 0 && tape.Bool(6, "repeat-ph") {
				nm = used[tape.Choose(len(used), "which")]
			} else {
				nm = names[len(used)%len(names)]
				used = append(used, nm)
			}
			switch tape.Choose(4, "ph-shape") {
			case 1:
				patSegs = append(patSegs, "x{"+nm+"}")
			case 2:
				patSegs = append(patSegs, "{"+nm+"}.json")
			default:
				patSegs = append(patSegs, "{"+nm+"}")
			}
		} else {
			patSegs = append(patSegs, genSeg(tape))
		}
		if i > 12 {
			break
		}
	}
	patPath := "/" + strings.Join(patSegs, "/")
	if tape.Bool(3, "trailing-slash") {
		patPath += "/"
	}
	if tape.Bool(12, "root-pattern") {
		patPath = "/"
	}
	qnames := []string{"q", "r", "page"}
	mkQuery := func(label string) (url.Values, []string) {
		v := url.Values{}
		var keys []string
		n := tape.Choose(3, label+"-n")
		for i := 0; i < n; i++ {
			k := qnames[tape.Choose(len(qnames), label+"-k")]
			if _, ok := v[k]; ok {
				continue
			}
			nv := 1 + tape.Choose(2, label+"-nv")
			if (label == "caller" || label == "auth") && tape.Bool(6, label+"-sets-the-name-with-no-value") {
				// an empty array parameter: the name is set, there is nothing to send for it — and nothing fixed in the
				// pattern or base path comes back in its place
				nv = 0
				v[k] = []string{}
			}
			for j := 0; j < nv; j++ {
				v[k] = append(v[k], fmt.Sprintf("%s%d%s", label, j, []string{"", " x", "&y=z", "/", "=http://x//cb", "/a/../b", "/./c", "/dir/"}[tape.Choose(8, label+"-v")]))
			}
			keys = append(keys, k)
		}
		return v, keys
	}
	patQ, _ := mkQuery("pat")
	baseQ, _ := mkQuery("base")
	callerQ, callerKeys := mkQuery("caller")
	// an auth writer is part of the caller's side: what it sets overrides pattern and base path too
	var authQ url.Values
	var authKeys []string
	if tape.Bool(3, "auth-writer") {
		authQ, authKeys = mkQuery("auth")
	}
	// a signing auth writer looks at the request it is given (path, method, query, headers, body) before it
	// writes anything: looking must not change what is sent
	authReads := tape.Bool(3, "auth-writer-reads-the-request")
	if authReads {
		env.Fault("auth-writer-reads-the-request")
		if authQ == nil {
			authQ = url.Values{}
		}
	}
	pattern := patPath
	if len(patQ) > 0 {
		pattern += "?" + patQ.Encode()
	}
	basePath := []string{"/", "/api", "/api/", "api", "/api/v2", ""}[tape.Choose(6, "base")]
	if len(baseQ) > 0 {
		// written the way people write it into a configuration: characters that are legal in a query stay as they are
		basePath += "?" + rawishQuery(baseQ)
	}
	values := map[string]string{}
	awkward := false
	for _, nm := range used {
		n := tape.Choose(4, "vparts")
		var sb strings.Builder
		for i := 0; i < n; i++ {
			j := tape.Choose(len(valueAlphabet), "vpart")
			if j >= 3 {
				awkward = true
			}
			sb.WriteString(valueAlphabet[j])
		}
		if n == 0 {
			awkward = true
		}
		values[nm] = sb.String()
	}
	if tape.Bool(5, "extra-value") {
		values["unused"] = "zzz"
	}
	if len(used) > 0 && tape.Bool(6, "placeholder-left-unset") {
		// the caller forgot one: its placeholder stays as written
		delete(values, used[tape.Choose(len(used), "which-unset")])
		awkward = true
	}
	setOrder := make([]string, 0, len(values))
	for k := range values {
		setOrder = append(setOrder, k)
	}
	sort.Strings(setOrder)
	perm := tape.Perm(len(setOrder), "set-order")
	ordered := make([]string, len(setOrder))
	for i, p := range perm {
		ordered[i] = setOrder[p]
	}
	rtSchemes := [][]string{nil, {"http"}, {"https"}, {"http", "https"}, {"ws", "https", "http"}, {"http", "ws"}, {"http", "ws", "https"}, {"ws", "wss", "http", "https"}}[tape.Choose(8, "rt-schemes")]
	opSchemes := [][]string{nil, {"http"}, {"https"}, {"http", "https"}, {"https", "http"}, {"ws", "wss"}, {"http", "ws", "https"}}[tape.Choose(7, "op-schemes")]
	salt := uint64(tape.Choose(1<<16, "map-order-salt"))
	// the Runtime is long-lived: other requests are built on it before and after the measured one
	earlierFails := tape.Bool(4, "earlier-request-fails")          // its params writer fails after setting a query parameter
	earlierOther := tape.Bool(4, "earlier-request-other")          // same operation id, other scheme list and values
	laterOther := tape.Bool(3, "later-request")                    // built afterwards: must not change the measured request
	via := tape.Weighted("built-through", 5, 1, 1, 1)              // 0 CreateHttpRequest 1 Submit 2 the OpenTelemetry wrapper 3 the OpenTracing wrapper
	earlierSame := tape.Bool(4, "earlier-request-same-pattern")    // same pattern, every placeholder set, to other values
	earlierExchangeFails := tape.Bool(5, "earlier-exchange-fails") // an earlier call over https died in the transport
	if earlierSame || earlierExchangeFails {
		env.Fault("other-requests-on-the-same-runtime")
	}
	if earlierFails || earlierOther || laterOther {
		env.Fault("other-requests-on-the-same-runtime")
	}
	res.Summary = fmt.Sprintf("base=%q pattern=%q values=%q caller=%v rt=%v op=%v", basePath, pattern, values, callerQ, rtSchemes, opSchemes)

	// ---- reference
	bu, err1 := url.Parse(func() string {
		if !strings.HasPrefix(basePath, "/") {
			return "/" + basePath
		}
		return basePath
	}())
	pu, err2 := url.Parse(pattern)
	if err1 != nil || err2 != nil {
		res.Infra = "generator produced an unparsable base path or pattern"
		return res
	}
	tmpl := path.Join(bu.Path, pu.Path)
	var want strings.Builder
	for i := 0; i < len(tmpl); {
		if tmpl[i] == '{' {
			if j := strings.IndexByte(tmpl[i:], '}'); j > 0 {
				if v, ok := values[tmpl[i+1:i+j]]; ok {
					want.WriteString(url.PathEscape(v))
					i += j + 1
					continue
				}
			}
		}
		want.WriteByte(tmpl[i])
		i++
	}
	wantPath := want.String()
	// braces of unknown placeholders are percent-encoded by net/url when the URL is printed
	wantPath = strings.NewReplacer("{", "%7B", "}", "%7D").Replace(wantPath)
	judgeSlash := pu.Path != "/"
	if judgeSlash && strings.HasSuffix(pu.Path, "/") {
		wantPath += "/"
	}
	wantQ := url.Values{}
	for k, v := range baseQ {
		wantQ[k] = v
	}
	for k, v := range patQ {
		wantQ[k] = v
	}
	for k, v := range callerQ {
		wantQ[k] = v
	}
	for k, v := range authQ {
		wantQ[k] = v
	}
	offered := rtSchemes
	if len(offered) == 0 {
		offered = opSchemes
	}

	// ---- executions, one per order of the path-parameter map
	nperm := 1
	for i := 2; i <= len(values); i++ {
		nperm *= i
	}
	if len(values) > 4 {
		nperm = 24
	}
	var first string
	for pi := 0; pi < nperm; pi++ {
		nvals := len(values)
		simrt.OrderFn = func(site int, keys []string) {
			if len(keys) == nvals && nvals > 1 && sameKeys(keys, values) {
				applyPerm(keys, pi)
				return
			}
			if salt != 0 {
				sort.SliceStable(keys, func(i, j int) bool {
					return kernel.Mix(kernel.Mix(salt, uint64(site)), kernel.HashString(keys[i])) < kernel.Mix(kernel.Mix(salt, uint64(site)), kernel.HashString(keys[j]))
				})
			}
		}
		rt := client.New("sim.local:8080", basePath, rtSchemes)
		otherOp := func(fail bool) *runtime.ClientOperation {
			return &runtime.ClientOperation{ID: "op", Method: "GET", PathPattern: "/other/{zz}", Schemes: []string{"ws", "http"},
				ProducesMediaTypes: []string{"application/json"}, ConsumesMediaTypes: []string{"application/json"},
				Params: runtime.ClientRequestWriterFunc(func(req runtime.ClientRequest, _ strfmt.Registry) error {
					_ = req.SetPathParam("zz", "other")
					_ = req.SetQueryParam("stale", "left-over")
					_ = req.SetQueryParam("q", "stale-q")
					_ = req.SetHeaderParam("X-Who", "other")
					if fail {
						return fmt.Errorf("params writer of an earlier request failed")
					}
					return nil
				})}
		}
		if earlierFails {
			_, _ = rt.CreateHttpRequest(otherOp(true))
		}
		if earlierOther {
			_, _ = rt.CreateHttpRequest(otherOp(false))
		}
		if earlierSame {
			_, _ = rt.CreateHttpRequest(&runtime.ClientOperation{ID: "op", Method: "GET", PathPattern: pattern, Schemes: opSchemes,
				ProducesMediaTypes: []string{"application/json"}, ConsumesMediaTypes: []string{"application/json"},
				Params: runtime.ClientRequestWriterFunc(func(req runtime.ClientRequest, _ strfmt.Registry) error {
					for _, m := range placeholderRe.FindAllStringSubmatch(pattern, -1) {
						_ = req.SetPathParam(m[1], "earlier-"+m[1])
					}
					return req.SetQueryParam("stale", "left-over")
				})})
		}
		if earlierExchangeFails {
			saved := rt.Transport
			rt.Transport = failingTransport{}
			op := otherOp(false)
			op.Schemes = []string{"http", "https"}
			op.Reader = runtime.ClientResponseReaderFunc(func(runtime.ClientResponse, runtime.Consumer) (interface{}, error) { return nil, nil })
			_, _ = rt.Submit(op)
			rt.Transport = saved
		}
		w := &writer{path: values, order: ordered, query: callerQ, qkeys: callerKeys}
		op := &runtime.ClientOperation{ID: "op", Method: "GET", PathPattern: pattern, Schemes: opSchemes, Params: w,
			ProducesMediaTypes: []string{"application/json"}, ConsumesMediaTypes: []string{"application/json"}}
		if authQ != nil {
			op.AuthInfo = runtime.ClientAuthInfoWriterFunc(func(req runtime.ClientRequest, _ strfmt.Registry) error {
				if authReads {
					_ = req.GetPath()
					_ = req.GetMethod()
					// what the getters hand out is the writer's to keep: canonicalising or masking it in place must not reach the request
					for _, vs := range req.GetQueryParams() {
						sort.Strings(vs)
						for i := range vs {
							vs[i] = "masked"
						}
					}
					_ = req.GetHeaderParams() // the live header map by design: not touched
					_ = req.GetBody()
				}
				for _, k := range authKeys {
					_ = req.SetQueryParam(k, append([]string(nil), authQ[k]...)...)
				}
				return nil
			})
		}
		var got string
		var gotErr error
		var gotURL *url.URL
		if pm := kernel.Catch(func() {
			var req *http.Request
			var err error
			if via == 0 {
				req, err = rt.CreateHttpRequest(op)
			} else {
				// the same request as the transport sees it when the call goes in through Submit or one of its tracing wrappers
				rec := &recordingTransport{}
				op.Client = &http.Client{Transport: rec} // (the Runtime's own client may already exist, made for an earlier call)
				op.Reader = runtime.ClientResponseReaderFunc(func(runtime.ClientResponse, runtime.Consumer) (interface{}, error) { return nil, nil })
				submit := rt.Submit
				switch via {
				case 2:
					op.Context = context.Background()
					submit = rt.WithOpenTelemetry().Submit
				case 3:
					op.Context = context.Background()
					submit = rt.WithOpenTracing().Submit
				}
				_, err = submit(op)
				req = rec.seen
				if err == nil && req == nil {
					err = stderrors.New("no request reached the transport")
				}
			}
			gotErr = err
			if err == nil {
				gotURL = req.URL
				render := func() string {
					return req.URL.Scheme + "://" + req.URL.Host + req.URL.EscapedPath() + "?" + req.URL.RawQuery + "#" + req.URL.Fragment + fmt.Sprintf(" hdr=%v", headerDigest(req.Header))
				}
				got = render()
				if laterOther {
					_, _ = rt.CreateHttpRequest(otherOp(false))
					if after := render(); after != got {
						env.Violate("C10/request-changed-by-a-later-request", "later-request", "the request built first changed when another request was built on the same Runtime: was %s, now %s", got, after)
					}
				}
			}
		}); pm != "" {
			env.Violate("C10/panic", "create", "CreateHttpRequest panicked: %s", pm)
			break
		}
		env.Log("order", "perm %d → %s err=%v", pi, got, gotErr)
		if gotErr != nil {
			cls := valueClass(values)
			if strings.HasPrefix(wantPath, "//") {
				cls = "leading-empty-segment"
			}
			env.Violate("C10/error", cls, "CreateHttpRequest failed for well-formed inputs: %v", gotErr)
			break
		}
		if pi == 0 {
			first = got
			// reference model, once
			if gotURL.Host != "sim.local:8080" {
				env.Violate("C10/host", "host", "host %q", gotURL.Host)
			}
			if contains(offered, "https") && len(offered) > 1 && gotURL.Scheme != "https" {
				env.Violate("C10/scheme", "https-offered", "schemes offered %v, chosen %q", offered, gotURL.Scheme)
			} else if len(offered) == 0 && gotURL.Scheme != "http" {
				env.Violate("C10/scheme", "none-offered", "no scheme offered, chosen %q", gotURL.Scheme)
			} else if len(offered) > 0 && !contains(offered, gotURL.Scheme) {
				env.Violate("C10/scheme", "not-offered", "schemes offered %v, chosen %q", offered, gotURL.Scheme)
			}
			gp := gotURL.EscapedPath()
			if !judgeSlash {
				gp = strings.TrimSuffix(gp, "/")
				wantPath = strings.TrimSuffix(wantPath, "/")
			}
			if gp != wantPath {
				cls := "path-differs:" + valueClass(values)
				if strings.HasPrefix(wantPath, "//") {
					cls = "leading-empty-segment"
				} else if strings.TrimSuffix(gp, "/") == strings.TrimSuffix(wantPath, "/") {
					cls = "trailing-slash"
				} else if strings.Count(gp, "/") != strings.Count(wantPath, "/") {
					cls = "segment-count:" + valueClass(values)
				}
				env.Violate("C10/path-wrong", cls, "escaped path %q, reference %q (template %q, values %q)", gp, wantPath, tmpl, values)
			}
			if gotURL.Fragment != "" || gotURL.RawFragment != "" {
				env.Violate("C10/path-wrong", "fragment", "URL has fragment %q", gotURL.Fragment)
			}
			gq, qerr := url.ParseQuery(gotURL.RawQuery)
			if qerr != nil || gq.Encode() != wantQ.Encode() {
				cls := queryClass(baseQ, patQ, callerQ)
				if len(authQ) > 0 {
					cls += "+auth-writer"
				}
				env.Violate("C10/query-wrong", cls, "query %q, reference %q (base %v, pattern %v, caller %v, auth writer %v)", gotURL.RawQuery, wantQ.Encode(), baseQ, patQ, callerQ, authQ)
			}
		} else if got != first {
			env.Violate("C10/order-dependent", valueClass(values), "URL depends on the iteration order of the path parameters: order 0 gives %s, order %d gives %s", first, pi, got)
			break
		}
	}
	if nperm > 1 {
		env.Fault("map-order-permuted")
	}
	if awkward {
		env.Fault("awkward-value")
	}
	res.FromEnv(env)
	return res
}

func headerDigest(h map[string][]string) []string {
	var out []string
	for k, v := range h {
		out = append(out, k+"="+strings.Join(v, ","))
	}
	sort.Strings(out)
	return out
}

func sameKeys(keys []string, m map[string]string) bool {
	for _, k := range keys {
		if _, ok := m[k]; !ok {
			return false
		}
	}
	return true
}

// applyPerm rearranges the (sorted) keys into the idx-th permutation in lexicographic order.
func applyPerm(keys []string, idx int) {
	n := len(keys)
	src := append([]string(nil), keys...)
	for i := 0; i < n; i++ {
		f := 1
		for x := 2; x <= n-1-i; x++ {
			f *= x
		}
		j := (idx / f) % len(src)
		idx %= f
		keys[i] = src[j]
		src = append(src[:j], src[j+1:]...)
	}
}

func contains(l []string, s string) bool {
	for _, x := range l {
		if x == s {
			return true
		}
	}
	return false
}

func valueClass(values map[string]string) string {
	var c []string
	add := func(s string) {
		for _, x := range c {
			if x == s {
				return
			}
		}
		c = append(c, s)
	}
	for _, v := range values {
		switch {
		case v == "":
			add("empty")
		case strings.Contains(v, "{"):
			add("placeholder-like")
		case strings.ContainsAny(v, "/?#"):
			add("separator")
		case strings.Contains(v, "%"):
			add("percent")
		case strings.Contains(v, ".."):
			add("dots")
		}
	}
	sort.Strings(c)
	if len(c) == 0 {
		return "plain"
	}
	return strings.Join(c, ",")
}

func queryClass(base, pat, caller url.Values) string {
	var c []string
	for k := range caller {
		if _, ok := pat[k]; ok {
			c = append(c, "caller-vs-pattern")
		}
		if _, ok := base[k]; ok {
			c = append(c, "caller-vs-base")
		}
	}
	for k := range pat {
		if _, ok := base[k]; ok {
			c = append(c, "pattern-vs-base")
		}
	}
	sort.Strings(c)
	if len(c) == 0 {
		return "no-collision"
	}
	out := c[:1]
	for _, x := range c[1:] {
		if x != out[len(out)-1] {
			out = append(out, x)
		}
	}
	return strings.Join(out, ",")
}

var placeholderRe = regexp.MustCompile(`\{([^{}/?]+)\}`)

// failingTransport: the connection cannot be established.
type failingTransport struct{}

func (failingTransport) RoundTrip(r *http.Request) (*http.Response, error) {
	if r.Body != nil {
		_ = r.Body.Close()
	}
	return nil, stderrors.New("dial tcp: connection refused")
}

// recordingTransport keeps the request it is given and answers 204.
type recordingTransport struct{ seen *http.Request }

func (t *recordingTransport) RoundTrip(r *http.Request) (*http.Response, error) {
	t.seen = r
	if r.Body != nil {
		_ = r.Body.Close()
	}
	return &http.Response{StatusCode: 204, Status: "204 No Content", Header: http.Header{}, Body: http.NoBody, Request: r, Proto: "HTTP/1.1", ProtoMajor: 1, ProtoMinor: 1}, nil
}

// rawishQuery encodes v like url.Values.Encode, except that values made only of characters that may appear literally
// in a query (letters, digits, ':', '/', '.', '_', '=', '-') are left unescaped.
func rawishQuery(v url.Values) string {
	keys := make([]string, 0, len(v))
	for k := range v {
		keys = append(keys, k)
	}
	sort.Strings(keys)
	var parts []string
	for _, k := range keys {
		for _, val := range v[k] {
			plain := true
			for i := 0; i < len(val); i++ {
				c := val[i]
				if !(c >= 'a' && c <= 'z' || c >= 'A' && c <= 'Z' || c >= '0' && c <= '9' || strings.IndexByte(":/._=-", c) >= 0) {
					plain = false
				}
			}
			if plain {
				parts = append(parts, url.QueryEscape(k)+"="+val)
			} else {
				parts = append(parts, url.QueryEscape(k)+"="+url.QueryEscape(val))
			}
		}
	}
	return strings.Join(parts, "&")
}
