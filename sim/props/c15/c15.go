// Package c15: the built-in codecs (JSON, XML, YAML, text, byte stream)
// round-trip values and never truncate, alias or panic.  SEQ driver: one run
// is one codec call (or one produce→consume pair) over a scripted Stream /
// Sink, checked against the bytes / value that went in.
package c15

import (
	"encoding/json"
	"errors"
	"fmt"
	"io"
	"testing"

	"verif.local/sim/kernel"
)

type prop struct{}

func init() { kernel.Register(prop{}) }

func (prop) ID() string     { return "C15" }
func (prop) Engine() string { return "SEQ" }
func (prop) Level() string  { return "fault_enumeration" }

func (prop) Budget(tier string) int {
	if tier == "thorough" {
		return 28000000
	}
	return 600000
}

func (prop) Describe() kernel.Description {
	return kernel.Description{
		Rule: "Dimensions added with the seed waves: reader errors that are io.ErrUnexpectedEOF or wrap io.EOF, reported once, or transient (the stream carries on); documents that are one number; untyped slots behind an embedded unexported struct; the caller refilling its own source buffer after the call; a value with a wire form and a different display form; overlapping calls on one codec value. " +
			"one run = one codec (byte-stream consumer/producer, text consumer/producer, JSON, XML, YAML) × one source/destination kind " +
			"(supported: string/[]byte/named/pointer/*any/io.Writer/io.ReaderFrom/*bytes.Buffer/(Binary|Text)(Un)marshaler/error/Stringer/io.Reader/" +
			"io.ReadCloser/io.WriterTo/struct/slice/map/any; unsupported: nil, typed-nil pointers, non-pointers, wrong element kinds, pre-populated) × " +
			"one content (short, empty, all byte values, invalid UTF-8, around 512/4096, >32 KiB; for JSON/XML/YAML a seeded document or tree, incl. " +
			"JSON numbers beyond float64) × one scripted reader (chunk 1 / small / fixed / whole / random, zero-length reads, terminal alone or with the last " +
			"chunk, injected read error at a chosen offset) × one scripted writer (write error at a chosen offset) × closing option × closable or not. " +
			"Oracles: exact bytes / equal value without faults, an error whenever an injected fault fired or had to be reached, close counts, no panic, " +
			"an error for unsupported destinations on non-empty input, first destination intact after a second call (alias). " +
			"The sweep enumerates per (codec, kind, content class) every read-error offset, every write-error offset and every position of a zero-length read " +
			"× chunk {1,2,7,whole} × terminal-with-data × closing option (quick: short contents only). distinct = distinct history signature (hash of every " +
			"stream/sink operation and of the call outcomes); non-trivial = at least one fault kind fired.",
		Real: []string{"runtime.ByteStreamConsumer", "runtime.ByteStreamProducer", "runtime.ClosesStream", "runtime.TextConsumer", "runtime.TextProducer",
			"runtime.JSONConsumer", "runtime.JSONProducer", "runtime.XMLConsumer", "runtime.XMLProducer", "yamlpc.YAMLConsumer", "yamlpc.YAMLProducer",
			"encoding/json", "encoding/xml", "gopkg.in/yaml.v3", "github.com/go-openapi/swag WriteJSON", "io.Copy", "bytes.Buffer.ReadFrom"},
		Stubs: []string{"input stream (scripted Stream)", "output writer (scripted Sink)", "source payload readers (scripted Stream)",
			"destination/source helper types implementing io.ReaderFrom, io.WriterTo, encoding.(Binary|Text)(Un)marshaler, error, fmt.Stringer"},
		Assumptions: []string{
			"value domain of JSON/XML/YAML is conservative: valid UTF-8 strings (XML: no control characters other than tab/CR/LF), finite floats, string map keys, no top-level XML slices or maps; nil and empty slices/maps compare equal",
			"JSON numbers are compared as json.Number literals in any-typed destinations",
			"for JSON/XML/YAML a read error at or after the end of the encoded value (trailing newline excluded) may or may not be reported; strictly before it must be",
			"unsupported destinations must yield an error only when the input is non-empty (the text consumer's early nil on empty input is accepted); pre-populated destinations must not panic and, for the byte-stream and text codecs, hold exactly the bytes read on success of a non-empty input",
			"encoding/xml deliberately skips interface-typed values, so *any is not treated as an unsupported XML destination",
			"panics raised inside caller-supplied methods on typed-nil receivers (nil *bytes.Buffer, nil BinaryUnmarshaler) are the caller's and are not generated",
			"unsupported source kinds such as chan/func are not generated for the YAML producer (yaml.v3 panics on them; the property's error clause is about destinations); typed-nil pointer sources of otherwise supported kinds are generated",
			"a stream closed more than once is recorded as a probe, not a violation",
			"zero-length reads are bounded (≤3 per stream) so that no library's empty-read guard is the subject",
		},
	}
}

// Modes (codec × side).
const (
	mBSCons = iota
	mBSProd
	mTxCons
	mTxProd
	mJSON
	mXML
	mYAML
	nModes
)

var modeNames = [...]string{"bytestream-consumer", "bytestream-producer", "text-consumer", "text-producer", "json", "xml", "yaml"}

const (
	offNone = -1 // no fault
	offDraw = -2 // draw the offset from the tape once the length is known
)

// spec is the fully explicit description of one case (sweep scenarios carry it
// as JSON; random runs draw it from the tape).
type spec struct {
	Mode         int    `json:"m"`
	Kind         string `json:"k"`
	Content      int    `json:"c"` // content class (bytes modes) or value class (structured)
	Size         int    `json:"n"`
	Salt         int    `json:"s"`
	Closing      bool   `json:"cl"`
	Closable     bool   `json:"cb"`
	Chunk        int    `json:"ch"` // 0 whole, >0 fixed, -1 tape-chosen per read
	TermWithData bool   `json:"twd"`
	ReadErr      int    `json:"re"`
	WriteErr     int    `json:"we"`
	ZeroAt       int    `json:"z"`  // offset before which exactly one (0,nil) read is inserted; -1 none
	ZeroBudget   int    `json:"zb"` // tape-placed (0,nil) reads
	Second       bool   `json:"2"`  // a second call with the same codec instance (alias check)
	Transient    bool   `json:"tr"` // the read error is transient: the read fails once, delivers nothing, and the stream carries on afterwards
	ErrOnce      bool   `json:"eo"` // the failing reader reports its error once and io.EOF afterwards
	ErrKind      int    `json:"ek"` // which error value the failing reader returns: 0 a private one, 1 io.ErrUnexpectedEOF, 2 one that wraps io.EOF
}

type kindInfo struct {
	name      string
	supported bool
}

func kindsOf(mode int) []kindInfo {
	switch mode {
	case mBSCons:
		return bsConsKinds
	case mBSProd:
		return bsProdKinds
	case mTxCons:
		return txConsKinds
	case mTxProd:
		return txProdKinds
	case mJSON:
		return jsonKinds
	case mXML:
		return xmlKinds
	}
	return yamlKinds
}

func kindSupported(mode int, name string) (bool, bool) {
	for _, k := range kindsOf(mode) {
		if k.name == name {
			return k.supported, true
		}
	}
	return false, false
}

func drawSpec(t *kernel.Tape) spec {
	var sp spec
	sp.Mode = t.Weighted("mode", 6, 5, 4, 3, 4, 3, 4)
	kinds := kindsOf(sp.Mode)
	// supported kinds first in every table: index 0 is the plainest one
	sp.Kind = kinds[t.Choose(len(kinds), "kind")].name
	if sp.Mode >= mJSON {
		sp.Content = t.Weighted("value-class", 4, 4, 4, 3, 1)
	} else {
		sp.Content = t.Weighted("content-class", 6, 2, 3, 3, 3, 1)
	}
	sp.Size = t.Choose(1000, "size")
	sp.Salt = t.Choose(1000, "salt")
	sp.Closing = t.Choose(2, "closing-option") == 1
	sp.Closable = t.Choose(3, "closable") != 2
	switch t.Choose(5, "chunk-mode") {
	case 0:
		sp.Chunk = 0
	case 1:
		sp.Chunk = 1
	case 2:
		sp.Chunk = 2 + t.Choose(6, "chunk-small")
	case 3:
		sp.Chunk = 8 + t.Choose(700, "chunk-fixed")
	default:
		sp.Chunk = -1
	}
	sp.TermWithData = t.Choose(2, "term-with-data") == 1
	sp.ZeroBudget = t.Weighted("zero-budget", 3, 1, 1, 1)
	sp.ZeroAt = -1
	sp.ReadErr, sp.WriteErr = offNone, offNone
	switch t.Weighted("fault", 5, 3, 2, 1) {
	case 1:
		sp.ReadErr = offDraw
	case 2:
		sp.WriteErr = offDraw
	case 3:
		sp.ReadErr, sp.WriteErr = offDraw, offDraw
	}
	sp.Second = t.Choose(3, "second-call") == 1
	sp.ErrKind = t.Weighted("read-error-value", 3, 1, 1)
	sp.ErrOnce = t.Bool(4, "read-error-reported-once")
	sp.Transient = t.Bool(5, "read-error-is-transient")
	return sp
}

// pickOff resolves a fault offset for a content of length n.
func pickOff(t *kernel.Tape, sel, n int, label string) int {
	switch {
	case sel == offNone:
		return offNone
	case sel >= 0:
		if sel > n {
			return n
		}
		return sel
	}
	switch t.Choose(4, label+"-where") {
	case 0:
		return t.Choose(n+1, label)
	case 1:
		return t.Choose(min(n, 3)+1, label+"-start")
	case 2:
		return n - t.Choose(min(n, 3)+1, label+"-end")
	}
	return n
}

func (prop) Run(t *testing.T, tape *kernel.Tape, sc kernel.Scenario) *kernel.Result {
	env := kernel.NewEnv(tape)
	res := &kernel.Result{}
	var sp spec
	if sc.Name == "sweep" {
		if err := json.Unmarshal(sc.Params, &sp); err != nil {
			res.Infra = "bad sweep params: " + err.Error()
			return res
		}
	} else {
		if tape.Choose(25, "overlap-mode") == 24 {
			return runOverlap(t, tape)
		}
		sp = drawSpec(tape)
	}
	if _, ok := kindSupported(sp.Mode, sp.Kind); !ok || sp.Mode < 0 || sp.Mode >= nModes {
		res.Infra = fmt.Sprintf("unknown kind %q for mode %d", sp.Kind, sp.Mode)
		return res
	}
	c := &run{env: env, tape: tape, sp: sp, codec: modeNames[sp.Mode]}
	switch sp.Mode {
	case mBSCons:
		c.bsConsume()
	case mBSProd:
		c.bsProduce()
	case mTxCons:
		c.txConsume()
	case mTxProd:
		c.txProduce()
	default:
		c.structured()
	}
	res.Summary = c.summary
	res.FromEnv(env)
	return res
}

// run is the per-run state shared by the mode drivers.
type run struct {
	env     *kernel.Env
	tape    *kernel.Tape
	sp      spec
	codec   string
	summary string
}

func (c *run) violate(class, sig, format string, a ...any) {
	c.env.Violate("C15/"+class, sig, format, a...)
}

// errClass is what the history records about an error: never its text (the
// codecs print pointer values into their messages).
func errClass(err error) string {
	switch {
	case err == nil:
		return "nil"
	case kernel.IsInjected(err):
		return "injected"
	case err == io.EOF:
		return "EOF"
	case err == io.ErrUnexpectedEOF:
		return "unexpected-EOF"
	}
	return "error"
}

// ---------------------------------------------------------------------------
// scripted input

// input is a Stream plus the reader handed to the code under test.
type input struct {
	st             *kernel.Stream
	full           []byte // the content the stream would deliver without a fault
	r              io.Reader
	faulty         bool // an injected error is the terminal condition
	transientAtEnd bool
	failAt         int // offset at which the injected read error arrives (len(full) when there is none)
}

// zeroReader inserts exactly one (0,nil) read before the read that would start
// at offset at (sweep of zero-length-read positions).
type zeroReader struct {
	env  *kernel.Env
	st   *kernel.Stream
	at   int
	done bool
}

func (z *zeroReader) Read(p []byte) (int, error) {
	if z.at >= 0 && !z.done && len(p) > 0 && z.st.Pos == z.at && !z.st.TermDelivered && z.st.Closed == 0 {
		z.done = true
		z.env.Fault("zero-length-read")
		z.env.Log(z.st.Name, "read → 0,nil (placed at %d)", z.at)
		return 0, nil
	}
	return z.st.Read(p)
}

type zeroReadCloser struct{ *zeroReader }

func (z zeroReadCloser) Close() error { return z.st.Close() }

// newInput builds the scripted stream of this run.  name distinguishes the
// roles in the history, tag the fault kinds.
func (c *run) newInput(name, tag string, full []byte, closable bool) *input {
	sp := c.sp
	st := kernel.NewStream(c.env, name, full)
	st.Tag = tag
	in := &input{st: st, full: full, failAt: len(full)}
	if off := pickOff(c.tape, sp.ReadErr, len(full), "read-error-offset"); off >= 0 {
		in.failAt = off
		st.Data = full[:off]
		st.Term = &kernel.InjectedError{What: fmt.Sprintf("read error at %d", off)}
		switch sp.ErrKind {
		case 1:
			// what net/http's body reader returns when the peer sent fewer bytes than it announced
			st.Term = io.ErrUnexpectedEOF
			c.env.Fault("read-error-is-io.ErrUnexpectedEOF")
		case 2:
			st.Term = fmt.Errorf("connection reset before the end: %w", io.EOF)
			c.env.Fault("read-error-wraps-io.EOF")
		}
		st.ErrOnce = sp.ErrOnce
		if sp.Transient {
			// the read at this offset fails once (a timeout, say) and the stream then carries on to its real end:
			// the codec cannot know that, the error still has to come back
			st.Data, st.Term, st.ErrOnce = full, nil, false
			st.TransientErrAt = off
			in.transientAtEnd = off == len(full)
		}
		in.faulty = true
	}
	st.TermWithData = sp.TermWithData && !in.transientAtEnd // the end marker must not ride along with the last byte past a transient error that waits at the end
	switch {
	case sp.Chunk == 0:
		st.ChunkMode = kernel.ChunkWhole
	case sp.Chunk == 1:
		st.ChunkMode = kernel.ChunkOne
	case sp.Chunk > 1:
		st.ChunkMode, st.FixedChunk = kernel.ChunkFixed, sp.Chunk
	default:
		st.ChunkMode = kernel.ChunkRandom
	}
	// bound the number of operations on large contents
	if len(full) > 8192 && (st.ChunkMode == kernel.ChunkOne || st.ChunkMode == kernel.ChunkRandom || (st.ChunkMode == kernel.ChunkFixed && st.FixedChunk < 256)) {
		st.ChunkMode, st.FixedChunk = kernel.ChunkFixed, 1000+sp.Chunk*37&1023
	}
	st.ZeroReads = sp.ZeroBudget
	zr := &zeroReader{env: c.env, st: st, at: sp.ZeroAt}
	switch {
	case sp.ZeroAt >= 0 && closable:
		in.r = zeroReadCloser{zr}
	case sp.ZeroAt >= 0:
		in.r = zr
	case closable:
		in.r = st
	default:
		in.r = kernel.ReaderOnly{S: st}
	}
	return in
}

// newSink builds the scripted writer of this run.
func (c *run) newSink(name string, expectLen int, closable bool) (*kernel.Sink, io.Writer) {
	sk := kernel.NewSink(c.env, name)
	if off := pickOff(c.tape, c.sp.WriteErr, expectLen, "write-error-offset"); off >= 0 {
		sk.FailAt = off
		sk.Err = &kernel.InjectedError{What: fmt.Sprintf("write error at %d", off)}
	}
	if closable {
		return sk, &closableSink{env: c.env, sk: sk}
	}
	return sk, sk
}

var errWriteAfterClose = errors.New("sim sink: write after close")

// closableSink is a Sink with Close; like a real file or connection it
// rejects writes once closed.
type closableSink struct {
	env *kernel.Env
	sk  *kernel.Sink
}

func (w *closableSink) Write(p []byte) (int, error) {
	if w.sk.Closed > 0 {
		w.env.Probe("write-after-close")
		w.env.Log(w.sk.Name, "write(%d) after close → error", len(p))
		return 0, errWriteAfterClose
	}
	return w.sk.Write(p)
}

func (w *closableSink) Close() error {
	w.sk.Closed++
	w.env.Log(w.sk.Name, "close #%d", w.sk.Closed)
	return nil
}

func (c *run) writeFaultFired() bool { return c.env.Faults["write-error"] > 0 }

// ---------------------------------------------------------------------------
// contents for the byte-exact codecs

const (
	ccShort = iota
	ccEmpty
	ccBinary
	ccInvalidUTF8
	ccMedium
	ccLarge
	nContentClasses
)

var contentClassNames = [...]string{"short", "empty", "binary", "invalid-utf8", "medium", "large"}

var mediumLens = []int{511, 512, 513, 1023, 1024, 1025, 4095, 4096, 4097, 600, 2000, 5000}
var largeLens = []int{32767, 32768, 32769, 65536, 70001, 150000}

func contentLen(class, size int) int {
	switch class {
	case ccEmpty:
		return 0
	case ccShort:
		return 1 + size%40
	case ccBinary:
		return 1 + size%300
	case ccInvalidUTF8:
		return 1 + size%60
	case ccMedium:
		return mediumLens[size%len(mediumLens)]
	}
	return largeLens[size%len(largeLens)]
}

var invalidUTF8 = []byte("ok\xff\xfe\xc3(\xe2\x82\xf0\x9f\x98 \xc0\xaf\xed\xa0\x80é\xf8\x88日\x80\xbf")

// makeContent is a deterministic function of (class, size, salt).
func makeContent(class, size, salt int) []byte {
	n := contentLen(class, size)
	b := make([]byte, n)
	for i := range b {
		switch class {
		case ccBinary:
			b[i] = byte(i*131 + salt + i/256)
		case ccInvalidUTF8:
			b[i] = invalidUTF8[(i+salt)%len(invalidUTF8)]
		case ccShort:
			b[i] = byte(' ' + (i*7+salt)%95)
		default:
			b[i] = byte((i*7 + salt + i/251) % 256)
		}
	}
	return b
}

// other returns a content of the same length sharing no byte with b.
func other(b []byte) []byte {
	o := make([]byte, len(b))
	for i := range b {
		o[i] = ^b[i]
	}
	return o
}

func describeBytes(a, b []byte) string {
	switch {
	case len(a) < len(b) && string(b[:len(a)]) == string(a):
		return "truncated"
	case len(a) > len(b) && string(a[:len(b)]) == string(b):
		return "extended"
	}
	return "different"
}
