package c15

import (
	"bytes"
	"fmt"
	"testing"

	"github.com/go-openapi/runtime"

	"verif.local/sim/kernel"
)

// runOverlap: one codec object used by two overlapping calls (a codec is a
// value built once and shared by all requests).  K1 bubble: the scripted
// streams park, so the tape decides how the two calls interleave.  Each call
// must deliver its own bytes and close exactly its own stream, iff requested.
func runOverlap(t *testing.T, tape *kernel.Tape) *kernel.Result {
	env := kernel.NewEnv(tape)
	res := &kernel.Result{}
	closes := tape.Bool(2, "closes-stream")
	producer := tape.Bool(2, "producer-side")
	n := 2 + tape.Choose(2, "overlapping-calls")
	data := make([][]byte, n)
	streams := make([]*kernel.Stream, n)
	sinks := make([]*kernel.Sink, n)
	dst := make([]*bytes.Buffer, n)
	errs := make([]error, n)
	panics := make([]string, n)
	for i := range data {
		data[i] = makeContent(0, 1+tape.Choose(5, "size"), 40+i)
		if len(data[i]) == 0 {
			data[i] = []byte(fmt.Sprintf("call-%d", i))
		}
	}
	res.Summary = fmt.Sprintf("overlap: %d concurrent calls on one byte-stream codec, producer=%v closes=%v", n, producer, closes)
	env.Fault("overlapping-calls")
	kernel.RunBubble(t, env, func(k *kernel.K1) {
		cons := runtime.ByteStreamConsumer()
		prod := runtime.ByteStreamProducer()
		if closes {
			cons = runtime.ByteStreamConsumer(runtime.ClosesStream)
			prod = runtime.ByteStreamProducer(runtime.ClosesStream)
		}
		for i := 0; i < n; i++ {
			i := i
			streams[i] = kernel.NewStream(env, fmt.Sprintf("in%d", i), data[i])
			streams[i].ChunkMode = kernel.ChunkFixed
			streams[i].FixedChunk = 1 + tape.Choose(64, "chunk")
			sinks[i] = kernel.NewSink(env, fmt.Sprintf("out%d", i))
			dst[i] = &bytes.Buffer{}
			k.Go(fmt.Sprintf("call%d", i), func() {
				panics[i] = kernel.Catch(func() {
					if producer {
						errs[i] = prod.Produce(kernel.SinkCloser{Sink: sinks[i]}, kernel.ReaderOnly{S: streams[i]})
					} else {
						var out []byte
						errs[i] = cons.Consume(streams[i], &out)
						dst[i].Write(out)
					}
				})
			})
		}
		k.Run()
		if k.Stuck || k.Overrun {
			res.Infra = "overlap run did not finish"
			return
		}
		k.SettleAll()
	})
	if res.Infra != "" {
		res.FromEnv(env)
		return res
	}
	side := "bytestream-consumer"
	if producer {
		side = "bytestream-producer"
	}
	for i := 0; i < n; i++ {
		switch {
		case panics[i] != "":
			env.Violate("C15/panic", side+":overlapping-calls", "call %d panicked: %s", i, panics[i])
		case errs[i] != nil:
			env.Violate("C15/spurious-error", side+":overlapping-calls", "call %d failed: %v", i, errs[i])
		}
		got := dst[i].Bytes()
		closed := streams[i].Closed
		what := "stream"
		if producer {
			got = sinks[i].Buf
			closed = sinks[i].Closed
			what = "sink"
		}
		if !bytes.Equal(got, data[i]) {
			env.Violate("C15/bytes-mismatch", side+":overlapping-calls", "call %d delivered %d bytes that are not its own %d bytes", i, len(got), len(data[i]))
		}
		want := 0
		if closes {
			want = 1
		}
		if closed != want {
			cls := "C15/close-missing"
			if closed > want {
				cls = "C15/close-unrequested"
			}
			env.Violate(cls, side+":overlapping-calls:"+what, "call %d: its %s was closed %d times, want %d (closing option %v, %d calls overlapping on one codec)", i, what, closed, want, closes, n)
		}
	}
	res.FromEnv(env)
	return res
}
