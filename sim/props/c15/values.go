package c15

import (
	"encoding/json"
	"encoding/xml"
	"fmt"
	"math"
	"reflect"
	"sort"
	"strconv"
	"strings"

	"verif.local/sim/kernel"
)

// Value classes of the structured codecs.
const (
	vcSmall = iota
	vcFull
	vcSpecial
	vcNumbers
	vcBig
	nValueClasses
)

var valueClassNames = [...]string{"small", "full", "special-strings", "numbers", "big"}

type Inner struct {
	Name string   `json:"name" xml:"name" yaml:"name"`
	N    int64    `json:"n" xml:"n" yaml:"n"`
	Tags []string `json:"tags" xml:"tags>tag" yaml:"tags"`
}

type Doc struct {
	XMLName xml.Name          `json:"-" xml:"doc" yaml:"-"`
	Attr    string            `json:"attr" xml:"attr,attr" yaml:"attr"`
	Link    string            `json:"link" xml:"link" yaml:"link"` // names an HTML parser would treat specially are ordinary names here
	Meta    string            `json:"meta" xml:"meta" yaml:"meta"`
	S       string            `json:"s" xml:"s" yaml:"s"`
	B       bool              `json:"b" xml:"b" yaml:"b"`
	I       int64             `json:"i" xml:"i" yaml:"i"`
	U       uint64            `json:"u" xml:"u" yaml:"u"`
	F       float64           `json:"f" xml:"f" yaml:"f"`
	L       []string          `json:"l" xml:"l" yaml:"l"`
	NS      []int64           `json:"ns" xml:"ns" yaml:"ns"`
	In      Inner             `json:"in" xml:"in" yaml:"in"`
	P       *Inner            `json:"p,omitempty" xml:"p,omitempty" yaml:"p,omitempty"`
	Items   []Inner           `json:"items" xml:"items>item" yaml:"items"`
	M       map[string]string `json:"m" xml:"-" yaml:"m"`
	Num     json.Number       `json:"num" xml:"-" yaml:"-"`
	Any     any               `json:"any" xml:"-" yaml:"-"`
	extras  `xml:"-" yaml:"-"`
}

// Sealed has no untyped slot of its own: its only ones sit behind the embedded unexported type.
type Sealed struct {
	Name string `json:"name"`
	N    int64  `json:"n"`
	extras
}

// extras is embedded by value under an unexported type name: encoding/json still encodes and decodes its exported
// fields as fields of Doc, so the untyped slots in here are part of the value that must round-trip.
type extras struct {
	Extra  any            `json:"extra"`
	ExtraL []any          `json:"extra_l"`
	ExtraM map[string]any `json:"extra_m"`
}

// rng is a tiny deterministic generator seeded from (class, salt): values are
// a pure function of the spec, so sweeps and minimisation see stable values.
type rng struct{ s uint64 }

func (r *rng) n(k int) int {
	r.s = kernel.Mix(r.s, 0x51ED27)
	if k <= 1 {
		return 0
	}
	return int(r.s % uint64(k))
}

var plainStrings = []string{"a", "hello world", "", "The quick brown fox", "z9", "snake_case", "CamelCase", "with space", "x-y.z"}

var specialStrings = []string{
	"ünïcödé", "日本語", "emoji 😀", "quote\"s", "back\\slash", "<tag>&amp;</tag>", "a'b", "tab\there", "new\nline", " lead", "trail ",
	"true", "null", "123", "1e3", "~", "- x", "k: v", "#c", "[1]", "{a}", "0x1F", "2001-01-01", "yes", "No", "\r", "a\r\nb", "x\n", "  ", "\t",
	"\u0085", "\ufeff", "\ufffd", "\U0010ffff", "|", ">", "!!str", "&a", "*a", "? ", ": ", "%", "@", "`", "---", "...", "1_000", "0o7", ".inf", ".nan",
	"1:20", "=", "<<", "]]>", "<!--", "&#x41;", "\\u0041", "  ", "</doc>", "a\n\nb\n",
}

// strings that only some codecs can represent
var jsonOnlyStrings = []string{"\x00", "\x01\x02", "\x7f", "\x1b[0m"}
var yamlNewlineOnly = []string{"\n", "\n\n"}

var mapKeys = []string{"a", "key", "k 2", "ünï", "x.y", "true", "null", "1", "", "A"}

var bigJSONNumbers = []string{
	"12345678901234567890123456789", "-9007199254740993", "9007199254740993", "0.1234567890123456789012345", "1e400", "-1E-400",
	"18446744073709551616", "3.141592653589793238462643383279", "1.0", "100", "-0", "0.10", "1e2",
}

var int64Pool = []int64{0, 1, -1, 42, math.MaxInt64, math.MinInt64, 9007199254740993, -9007199254740993, 1 << 31, -(1 << 31) - 1}
var uint64Pool = []uint64{0, 1, math.MaxUint64, 1 << 63, 9007199254740993, math.MaxUint32 + 1}
var floatPool = []float64{0, 1.5, -2.25, 0.1, 3, 1e21, 1e-7, 5e-324, math.MaxFloat64, -math.MaxFloat64, 123456789.125, 1.7976931348623157e308, 2.2250738585072014e-308}

type gen struct {
	r     rng
	mode  int
	class int
	feat  map[string]bool
}

func newGen(mode, class, salt int) *gen {
	return &gen{r: rng{s: kernel.Mix(uint64(class)+1, uint64(salt)+77)}, mode: mode, class: class, feat: map[string]bool{}}
}

func (g *gen) features() string {
	var fs []string
	for f := range g.feat {
		fs = append(fs, f)
	}
	sort.Strings(fs)
	return strings.Join(fs, "+")
}

func (g *gen) str() string {
	switch g.class {
	case vcSmall, vcNumbers:
		return plainStrings[g.r.n(len(plainStrings))]
	case vcBig:
		if g.r.n(4) == 0 {
			return strings.Repeat(specialStrings[g.r.n(len(specialStrings))]+"·", 20+g.r.n(400))
		}
	case vcFull:
		if g.r.n(2) == 0 {
			return plainStrings[g.r.n(len(plainStrings))]
		}
	}
	if g.mode == mJSON && g.r.n(12) == 0 {
		return jsonOnlyStrings[g.r.n(len(jsonOnlyStrings))]
	}
	if g.mode == mYAML && g.class == vcSpecial && g.r.n(40) == 0 {
		g.feat["newline-only-string"] = true
		return yamlNewlineOnly[g.r.n(len(yamlNewlineOnly))]
	}
	return specialStrings[g.r.n(len(specialStrings))]
}

func (g *gen) key() string {
	if g.mode == mYAML && g.class == vcSpecial && g.r.n(40) == 0 {
		g.feat["merge-key"] = true
		return "<<"
	}
	if g.class == vcSmall {
		return mapKeys[g.r.n(3)]
	}
	return mapKeys[g.r.n(len(mapKeys))]
}

func (g *gen) count() int {
	switch g.class {
	case vcSmall:
		return g.r.n(2)
	}
	return g.r.n(4)
}

// bigCount sizes the one long list of a big value (encoded size 5–60 KiB).
func (g *gen) bigCount() int { return 40 + g.r.n(160) }

func (g *gen) bigStrs() []string {
	out := make([]string, g.bigCount())
	for i := range out {
		out[i] = g.str()
	}
	return out
}

func (g *gen) strs() []string {
	n := g.count()
	if n == 0 {
		return nil
	}
	out := make([]string, n)
	for i := range out {
		out[i] = g.str()
	}
	return out
}

func (g *gen) i64() int64 {
	if g.class == vcSmall {
		return int64(g.r.n(100))
	}
	return int64Pool[g.r.n(len(int64Pool))]
}

func (g *gen) inner() Inner {
	return Inner{Name: g.str(), N: g.i64(), Tags: g.strs()}
}

func (g *gen) doc() Doc {
	d := Doc{Attr: g.str(), S: g.str(), B: g.r.n(2) == 1, I: g.i64(), Link: "l-" + plainStrings[g.r.n(len(plainStrings))], Meta: "m-" + plainStrings[g.r.n(len(plainStrings))]}
	if g.class != vcSmall {
		d.U = uint64Pool[g.r.n(len(uint64Pool))]
		d.F = floatPool[g.r.n(len(floatPool))]
		d.L = g.strs()
		if g.class == vcBig {
			d.L = g.bigStrs()
		}
		for i, n := 0, g.count(); i < n; i++ {
			d.NS = append(d.NS, g.i64())
		}
		d.In = g.inner()
		if g.r.n(2) == 0 {
			in := g.inner()
			d.P = &in
		}
		for i, n := 0, g.count(); i < n; i++ {
			d.Items = append(d.Items, g.inner())
		}
	}
	if g.mode != mXML && g.class != vcSmall {
		if n := g.count(); n > 0 {
			d.M = map[string]string{}
			for i := 0; i < n; i++ {
				d.M[g.key()+suffix(g.class, i)] = g.str()
			}
		}
	}
	if g.mode == mJSON {
		d.Num = json.Number(g.number())
		switch g.r.n(4) {
		case 0:
			d.Any = json.Number(g.number())
		case 1:
			d.Any = g.str()
		case 2:
			d.Any = map[string]any{"n": json.Number(g.number()), "s": g.str()}
		}
		switch g.r.n(3) {
		case 0:
			d.Extra = json.Number(g.number())
		case 1:
			d.ExtraL = []any{json.Number(g.number()), g.str()}
			d.ExtraM = map[string]any{"deep": []any{json.Number(g.number())}}
		}
	}
	return d
}

// suffix keeps generated map keys distinct in big values.
func suffix(class, i int) string {
	if class == vcBig {
		return strconv.Itoa(i)
	}
	return ""
}

func (g *gen) number() string {
	if g.class == vcNumbers || g.r.n(3) == 0 {
		return bigJSONNumbers[g.r.n(len(bigJSONNumbers))]
	}
	return strconv.Itoa(g.r.n(1000) - 500)
}

func (g *gen) inners() []Inner {
	n := 1 + g.count()
	if g.class == vcBig {
		n = g.bigCount()
	}
	out := make([]Inner, n)
	for i := range out {
		out[i] = g.inner()
	}
	return out
}

// scalar of an any-typed tree, in the form the consumer is expected to hand back.
func (g *gen) scalar() any {
	switch g.r.n(5) {
	case 0:
		return g.str()
	case 1:
		return g.r.n(2) == 1
	case 2:
		return nil
	case 3:
		if g.mode == mJSON {
			return json.Number(g.number())
		}
		return int(g.i64())
	}
	if g.mode == mJSON {
		return json.Number(g.number())
	}
	// floats with a fractional part or an exponent (an integral float is an int in YAML's eyes)
	return []float64{0.5, -1.25, 3.14159, 1e-7, 1.5e300, 0.1}[g.r.n(6)]
}

func (g *gen) tree(depth int) any {
	if depth <= 0 {
		return g.scalar()
	}
	switch g.r.n(4) {
	case 0:
		return g.treeMap(depth)
	case 1:
		n := g.count()
		out := make([]any, n)
		for i := range out {
			out[i] = g.tree(depth - 1)
		}
		return out
	}
	return g.scalar()
}

func (g *gen) treeMap(depth int) map[string]any {
	m := map[string]any{}
	for i, n := 0, 1+g.count(); i < n; i++ {
		m[g.key()+suffix(g.class, i)] = g.tree(depth - 1)
	}
	if g.class == vcBig && depth >= 2 {
		l := make([]any, g.bigCount())
		for i := range l {
			l[i] = g.scalar()
		}
		m["big"] = l
	}
	return m
}

// ---------------------------------------------------------------------------
// canonical rendering: what "an equal value" means

// canon renders a value so that two values are equal iff their renderings are:
// pointers are followed, nil and empty slices/maps coincide, map keys are
// sorted, json.Number is a literal, XMLName is ignored.
func canon(v any) string {
	var sb strings.Builder
	canonValue(&sb, reflect.ValueOf(v))
	return sb.String()
}

var jsonNumberType = reflect.TypeOf(json.Number(""))

func canonValue(sb *strings.Builder, v reflect.Value) {
	if !v.IsValid() {
		sb.WriteString("nil")
		return
	}
	if v.Type() == jsonNumberType {
		sb.WriteString("num:" + v.String())
		return
	}
	switch v.Kind() {
	case reflect.Pointer, reflect.Interface:
		if v.IsNil() {
			sb.WriteString("nil")
			return
		}
		canonValue(sb, v.Elem())
	case reflect.Struct:
		sb.WriteByte('{')
		for i := 0; i < v.NumField(); i++ {
			if v.Type().Field(i).Name == "XMLName" {
				continue
			}
			sb.WriteString(v.Type().Field(i).Name + "=")
			canonValue(sb, v.Field(i))
			sb.WriteByte(';')
		}
		sb.WriteByte('}')
	case reflect.Slice, reflect.Array:
		sb.WriteByte('[')
		for i := 0; i < v.Len(); i++ {
			canonValue(sb, v.Index(i))
			sb.WriteByte(',')
		}
		sb.WriteByte(']')
	case reflect.Map:
		keys := make([]string, 0, v.Len())
		vals := map[string]reflect.Value{}
		for _, k := range v.MapKeys() {
			var kb strings.Builder
			canonValue(&kb, k)
			keys = append(keys, kb.String())
			vals[kb.String()] = v.MapIndex(k)
		}
		sort.Strings(keys)
		sb.WriteString("map[")
		for _, k := range keys {
			sb.WriteString(k + ":")
			canonValue(sb, vals[k])
			sb.WriteByte(',')
		}
		sb.WriteByte(']')
	case reflect.String:
		sb.WriteString(strconv.Quote(v.String()))
	case reflect.Bool:
		sb.WriteString(strconv.FormatBool(v.Bool()))
	case reflect.Int, reflect.Int8, reflect.Int16, reflect.Int32, reflect.Int64:
		sb.WriteString("i:" + strconv.FormatInt(v.Int(), 10))
	case reflect.Uint, reflect.Uint8, reflect.Uint16, reflect.Uint32, reflect.Uint64:
		sb.WriteString("i:" + strconv.FormatUint(v.Uint(), 10))
	case reflect.Float32, reflect.Float64:
		sb.WriteString("f:" + strconv.FormatFloat(v.Float(), 'g', -1, 64))
	default:
		fmt.Fprintf(sb, "?%s", v.Kind())
	}
}

// firstCanonDiff shows where two renderings part (for messages).
func firstCanonDiff(a, b string) string {
	n := min(len(a), len(b))
	i := 0
	for i < n && a[i] == b[i] {
		i++
	}
	lo := max(0, i-30)
	return fmt.Sprintf("…%s ≠ …%s", clip(a[lo:], 70), clip(b[lo:], 70))
}

func clip(s string, n int) string {
	if len(s) > n {
		return s[:n] + "…"
	}
	return s
}
