package c15

import (
	"bytes"
	"encoding/json"
	"fmt"

	"github.com/go-openapi/runtime"
	"github.com/go-openapi/runtime/yamlpc"

	"verif.local/sim/kernel"
)

var jsonKinds = []kindInfo{
	{"struct", true}, {"ptr-struct", true}, {"slice", true}, {"map", true}, {"any", true}, {"prepop-struct", true}, {"sealed-struct", true},
	{"nil", false}, {"nil-ptr-struct", false}, {"nonptr-struct", false}, {"ptr-chan", false},
}

var xmlKinds = []kindInfo{
	{"struct", true}, {"ptr-struct", true}, {"prepop-struct", true},
	{"nil", false}, {"nil-ptr-struct", false}, {"nonptr-struct", false}, {"ptr-map", false},
}

var yamlKinds = []kindInfo{
	{"struct", true}, {"ptr-struct", true}, {"slice", true}, {"map", true}, {"any", true}, {"prepop-struct", true},
	{"nil", false}, {"nil-ptr-struct", false}, {"nonptr-struct", false}, {"ptr-chan", false},
}

func codecPair(mode int) (runtime.Producer, runtime.Consumer) {
	switch mode {
	case mJSON:
		return runtime.JSONProducer(), runtime.JSONConsumer()
	case mXML:
		return runtime.XMLProducer(), runtime.XMLConsumer()
	}
	return yamlpc.YAMLProducer(), yamlpc.YAMLConsumer()
}

// structuredValue returns the source value of a (mode, kind, class, salt), the
// destination to consume into, a getter for what the destination holds, and
// the features of the value that known findings are keyed by.
func structuredValue(mode int, kind string, class, salt int) (src any, dst any, got func() any, feat string) {
	g := newGen(mode, class, salt)
	switch kind {
	case "ptr-struct":
		d := g.doc()
		var p *Doc
		return &d, &p, func() any { return p }, g.features()
	case "sealed-struct":
		v := Sealed{Name: g.str(), N: g.i64()}
		v.Extra = json.Number(g.number())
		v.ExtraL = []any{json.Number(g.number()), g.str(), map[string]any{"n": json.Number(g.number())}}
		v.ExtraM = map[string]any{"serial": json.Number(g.number()), "l": []any{json.Number(g.number())}}
		var out Sealed
		return v, &out, func() any { return out }, g.features()
	case "slice":
		s := g.inners()
		var out []Inner
		return s, &out, func() any { return out }, g.features()
	case "map":
		m := g.treeMap(2)
		var out map[string]any
		return m, &out, func() any { return out }, g.features()
	case "any":
		var t any
		switch g.r.n(5) {
		case 4:
			// a document that is one number: every proper prefix of it is a valid, different document
			if mode == mJSON {
				t = json.Number(bigJSONNumbers[g.r.n(3)])
			} else {
				t = int(g.i64())
			}
		case 0:
			t = g.str()
		case 1:
			n := 1 + g.count()
			l := make([]any, n)
			for i := range l {
				l[i] = g.tree(2)
			}
			t = l
		default:
			t = g.treeMap(3)
		}
		var out any
		return t, &out, func() any { return out }, g.features()
	}
	d := g.doc()
	feat = g.features()
	switch kind {
	case "struct":
		var out Doc
		return d, &out, func() any { return out }, feat
	case "prepop-struct":
		out := newGen(mode, vcFull, salt+1).doc()
		out.L = append(out.L, "stale", "stale2")
		out.P = &Inner{Name: "stale", Tags: []string{"stale"}}
		if mode != mXML {
			out.M = map[string]string{"stale": "stale"}
		}
		return d, &out, func() any { return out }, feat
	case "nil":
		return d, nil, nil, feat
	case "nil-ptr-struct":
		return d, (*Doc)(nil), nil, feat
	case "nonptr-struct":
		return d, Doc{}, nil, feat
	case "ptr-chan":
		var ch chan int
		return d, &ch, nil, feat
	case "ptr-map":
		m := map[string]string{}
		return d, &m, nil, feat
	}
	panic("c15: unknown structured kind " + kind)
}

// encodeRef runs the real producer into a plain buffer (harness side: used to
// size fault offsets and by the sweep).  ok=false if it failed or panicked.
func encodeRef(mode int, src any) (b []byte, ok bool) {
	prod, _ := codecPair(mode)
	var w bytes.Buffer
	var err error
	if pm := kernel.Catch(func() { err = prod.Produce(&w, src) }); pm != "" || err != nil {
		return nil, false
	}
	return w.Bytes(), true
}

// withFeat puts the value features (what known findings are keyed by) in front
// of the kind so that one prefix entry covers every kind.
func withFeat(who, kind, feat string) string {
	if feat == "" {
		return who + ":" + kind
	}
	return who + ":value=" + feat + ":" + kind
}

func (c *run) structured() {
	sp := c.sp
	supported, _ := kindSupported(sp.Mode, sp.Kind)
	src, dst, got, feat := structuredValue(sp.Mode, sp.Kind, sp.Content, sp.Salt)
	prod, cons := codecPair(sp.Mode)
	ref, refOK := encodeRef(sp.Mode, src)
	whoP := withFeat(c.codec+"-producer", "src="+sp.Kind, feat)
	whoC := c.codec + "-consumer:dst=" + sp.Kind

	// produce into the scripted sink
	sk, w := c.newSink("out", len(ref), sp.Closable)
	c.summary = fmt.Sprintf("%s kind=%s value=%s/%d encoded=%d closable=%v sink{fail-at=%d}", c.codec, sp.Kind, valueClassNames[sp.Content], sp.Salt, len(ref), sp.Closable, sk.FailAt)
	var err error
	pm := kernel.Catch(func() { err = prod.Produce(w, src) })
	c.env.Log("call", "Produce(%s) → %s panic=%v", sp.Kind, errClass(err), pm != "")
	if pm != "" {
		c.violate("panic", whoP, "%s producer panicked on a %s value: %s", c.codec, sp.Kind, pm)
		return
	}
	if sp.Closable && sk.Closed > 0 {
		c.violate("close-unrequested", c.codec+"-producer:sink", "the %s producer closed the writer (%d times); it has no closing option", c.codec, sk.Closed)
	}
	if c.writeFaultFired() {
		if err == nil {
			c.violate("short-success", c.codec+"-producer:write-error", "%s producer reported success although the writer failed at offset %d of %d", c.codec, sk.FailAt, len(ref))
		} else if !kernel.IsInjected(err) {
			c.env.Probe("injected-error-replaced")
		}
		return
	}
	if err != nil {
		c.violate("spurious-error", whoP, "%s producer failed on a supported value without any injected fault", c.codec)
		return
	}
	if refOK && !bytes.Equal(ref, sk.Buf) {
		c.violate("bytes-mismatch", whoP+":"+describeBytes(sk.Buf, ref), "%s producer wrote %d bytes into the scripted writer but %d into a plain buffer", c.codec, len(sk.Buf), len(ref))
		return
	}
	encoded := append([]byte(nil), sk.Buf...)
	valueEnd := len(bytes.TrimRight(encoded, " \t\r\n"))

	// consume it back through the scripted stream
	in := c.newInput("in", "", encoded, sp.Closable)
	c.summary += " " + c.scriptString(in, nil)
	pm = kernel.Catch(func() { err = cons.Consume(in.r, dst) })
	c.env.Log("call", "Consume(dst=%s) → %s panic=%v", sp.Kind, errClass(err), pm != "")
	if pm != "" {
		if !supported {
			c.env.Probe("panic-on-unsupported-destination")
		}
		c.violate("panic", whoC, "%s consumer panicked on a %s destination: %s", c.codec, sp.Kind, pm)
		return
	}
	c.checkStreamClose(whoC, in, false, false, outcome(in, false, supported, err))
	switch {
	case !supported:
		if err == nil {
			c.violate("no-error", whoC, "%s consumer accepted an unsupported destination (%s) for %d bytes of input", c.codec, sp.Kind, len(encoded))
		}
		return
	case in.faulty && in.failAt < valueEnd:
		if err == nil {
			c.violate("short-success", whoC+":read-error", "%s consumer reported success although the stream failed at offset %d, before the end of the encoded value (%d)", c.codec, in.failAt, valueEnd)
		} else if !kernel.IsInjected(err) {
			c.env.Probe("injected-error-replaced")
		}
		return
	case in.faulty:
		if err != nil {
			c.env.Probe("read-error-after-value-reported")
			return
		}
		c.env.Probe("read-error-after-value-ignored")
	case err != nil:
		c.violate("spurious-error", withFeat(c.codec+"-consumer", "dst="+sp.Kind, feat), "%s consumer failed on what the producer wrote (%d bytes) without any injected fault", c.codec, len(encoded))
		return
	}
	if sp.Kind == "prepop-struct" {
		// merge semantics of the decoders: only "no panic" is demanded
		c.env.Probe("prepopulated-struct-decoded")
		return
	}
	want, have := canon(src), canon(got())
	if want != have {
		c.violate("value-mismatch", withFeat(c.codec+"-consumer", "dst="+sp.Kind, feat), "%s: consume(produce(v)) differs from v: %s (chunk=%d term-with-data=%v)", c.codec, firstCanonDiff(have, want), sp.Chunk, sp.TermWithData)
	}
}
