package c15

import (
	"bytes"
	"encoding/json"
	"fmt"
	"io"

	"github.com/go-openapi/runtime"

	"verif.local/sim/kernel"
)

// Kind tables.  Supported kinds come first; index 0 is the plainest one.

var bsConsKinds = []kindInfo{
	{"ptr-bytes", true}, {"ptr-string", true}, {"ptr-named-bytes", true}, {"ptr-named-string", true},
	{"any-bytes", true}, {"any-string", true}, {"writer", true}, {"readerfrom", true}, {"bytes-buffer", true},
	{"binary-unmarshaler", true}, {"prepop-bytes", true}, {"prepop-string", true},
	{"nil", false}, {"nil-ptr-string", false}, {"nil-ptr-bytes", false}, {"nil-ptr-any", false}, {"nil-ptr-named-bytes", false},
	{"nil-ptr-binary-unmarshaler", false}, {"nil-ptr-bytes-buffer", false},
	{"nonptr-bytes", false}, {"nonptr-string", false}, {"int", false}, {"ptr-int", false}, {"ptr-struct", false},
	{"ptr-strings", false}, {"ptr-ptr-bytes", false}, {"any-nil", false}, {"any-int", false},
}

var txConsKinds = []kindInfo{
	{"ptr-string", true}, {"ptr-named-string", true}, {"text-unmarshaler", true}, {"prepop-string", true},
	{"nil", false}, {"nil-ptr-string", false}, {"nil-ptr-named-string", false}, {"nil-ptr-int", false}, {"int", false},
	{"nil-ptr-text-unmarshaler", false},
	{"ptr-struct", false}, {"ptr-bytes", false}, {"ptr-ptr-string", false}, {"nonptr-string", false}, {"ptr-any", false},
}

var bsProdKinds = []kindInfo{
	{"bytes", true}, {"string", true}, {"named-bytes", true}, {"named-string", true}, {"ptr-bytes", true}, {"ptr-string", true},
	{"ptr-named-string", true}, {"reader", true}, {"readcloser", true}, {"writerto", true}, {"writerto-readcloser", true},
	{"binary-marshaler", true}, {"error", true}, {"struct", true}, {"ptr-struct", true}, {"strings", true}, {"nil-bytes", true},
	{"nil", false}, {"bool", false}, {"int", false}, {"map", false}, {"ptr-any", false}, {"ptr-ptr-string", false},
	{"nil-ptr-string", false}, {"nil-ptr-bytes", false}, {"nil-ptr-struct", false},
}

var txProdKinds = []kindInfo{
	{"string", true}, {"ptr-string", true}, {"named-string", true}, {"ptr-named-string", true}, {"text-marshaler", true}, {"text-marshaler+stringer", true},
	{"error", true}, {"stringer", true}, {"struct", true}, {"ptr-struct", true}, {"strings", true},
	{"nil", false}, {"int", false}, {"ptr-int", false}, {"map", false}, {"ptr-any", false}, {"bool", false},
	{"nil-ptr-string", false}, {"nil-ptr-struct", false},
}

type namedBytes []byte
type namedString string

// payload is the struct the text and byte-stream producers render as JSON.
type payload struct {
	Message string   `json:"message"`
	Code    int      `json:"code"`
	Tags    []string `json:"tags"`
}

// rfDest implements io.ReaderFrom only.
type rfDest struct{ buf []byte }

func (d *rfDest) ReadFrom(r io.Reader) (int64, error) {
	var total int64
	tmp := make([]byte, 512)
	for idle := 0; idle < 1000; {
		n, err := r.Read(tmp)
		d.buf = append(d.buf, tmp[:n]...)
		total += int64(n)
		if err == io.EOF {
			return total, nil
		}
		if err != nil {
			return total, err
		}
		if n == 0 {
			idle++
		} else {
			idle = 0
		}
	}
	return total, io.ErrNoProgress
}

// buDest implements encoding.BinaryUnmarshaler (copies, as the contract demands).
type buDest struct {
	b      []byte
	called bool
}

func (d *buDest) UnmarshalBinary(b []byte) error {
	d.called = true
	d.b = append([]byte(nil), b...)
	return nil
}

// tuDest implements encoding.TextUnmarshaler.
type tuDest struct {
	b      []byte
	called bool
}

func (d *tuDest) UnmarshalText(b []byte) error {
	d.called = true
	d.b = append([]byte(nil), b...)
	return nil
}

// wtSrc implements io.WriterTo only.
type wtSrc struct{ r io.Reader }

func (s *wtSrc) WriteTo(w io.Writer) (int64, error) {
	var total int64
	tmp := make([]byte, 700)
	for idle := 0; idle < 1000; {
		n, err := s.r.Read(tmp)
		if n > 0 {
			m, werr := w.Write(tmp[:n])
			total += int64(m)
			if werr != nil {
				return total, werr
			}
			if m < n {
				return total, io.ErrShortWrite
			}
		}
		if err == io.EOF {
			return total, nil
		}
		if err != nil {
			return total, err
		}
		if n == 0 {
			idle++
		} else {
			idle = 0
		}
	}
	return total, io.ErrNoProgress
}

// wtcSrc is io.WriterTo and io.ReadCloser at once.
type wtcSrc struct {
	wtSrc
	st *kernel.Stream
}

func (s *wtcSrc) Read(p []byte) (int, error) { return s.r.Read(p) }
func (s *wtcSrc) Close() error               { return s.st.Close() }

type bmSrc struct{ b []byte }

func (s *bmSrc) MarshalBinary() ([]byte, error) { return append([]byte(nil), s.b...), nil }

type tmSrc struct{ b []byte }

func (s *tmSrc) MarshalText() ([]byte, error) { return append([]byte(nil), s.b...), nil }

// tmStrSrc has a wire form (MarshalText) and a display form (String) that differ.
type tmStrSrc struct{ tmSrc }

func (s *tmStrSrc) String() string { return "display form of " + string(s.b) }

type strSrc struct{ s string }

func (s *strSrc) String() string { return s.s }

type errSrc struct{ s string }

func (s *errSrc) Error() string { return s.s }

// dest is a destination handed to a consumer.
type dest struct {
	arg    any
	stored func() []byte // what the destination holds now
	sink   *kernel.Sink
}

var prepop = bytes.Repeat([]byte("Z"), 64)

func (c *run) makeDest(kind string, expectLen int) dest {
	switch kind {
	case "ptr-bytes":
		var b []byte
		return dest{arg: &b, stored: func() []byte { return b }}
	case "ptr-string":
		var s string
		return dest{arg: &s, stored: func() []byte { return []byte(s) }}
	case "ptr-named-bytes":
		var b namedBytes
		return dest{arg: &b, stored: func() []byte { return b }}
	case "ptr-named-string":
		var s namedString
		return dest{arg: &s, stored: func() []byte { return []byte(s) }}
	case "any-bytes":
		var a any = []byte{}
		return dest{arg: &a, stored: func() []byte { b, _ := a.([]byte); return b }}
	case "any-string":
		var a any = "x"
		return dest{arg: &a, stored: func() []byte { s, _ := a.(string); return []byte(s) }}
	case "writer":
		sk, _ := c.newSink("dest", expectLen, false)
		return dest{arg: sk, stored: func() []byte { return sk.Buf }, sink: sk}
	case "readerfrom":
		d := &rfDest{}
		return dest{arg: d, stored: func() []byte { return d.buf }}
	case "bytes-buffer":
		d := &bytes.Buffer{}
		return dest{arg: d, stored: func() []byte { return d.Bytes() }}
	case "binary-unmarshaler":
		d := &buDest{}
		return dest{arg: d, stored: func() []byte { return d.b }}
	case "text-unmarshaler":
		d := &tuDest{}
		return dest{arg: d, stored: func() []byte { return d.b }}
	case "prepop-bytes":
		b := append(make([]byte, 0, 128), prepop...)
		return dest{arg: &b, stored: func() []byte { return b }}
	case "prepop-string":
		s := string(prepop)
		return dest{arg: &s, stored: func() []byte { return []byte(s) }}
	case "nil":
		return dest{arg: nil}
	case "nil-ptr-string":
		return dest{arg: (*string)(nil)}
	case "nil-ptr-bytes":
		return dest{arg: (*[]byte)(nil)}
	case "nil-ptr-any":
		return dest{arg: (*any)(nil)}
	case "nil-ptr-named-bytes":
		return dest{arg: (*namedBytes)(nil)}
	case "nil-ptr-named-string":
		return dest{arg: (*namedString)(nil)}
	case "nil-ptr-int":
		return dest{arg: (*int)(nil)}
	case "nil-ptr-text-unmarshaler":
		return dest{arg: (*tuDest)(nil)} // a typed-nil pointer whose type has the unmarshalling method
	case "nil-ptr-binary-unmarshaler":
		return dest{arg: (*buDest)(nil)}
	case "nil-ptr-bytes-buffer":
		return dest{arg: (*bytes.Buffer)(nil)}
	case "nonptr-bytes":
		return dest{arg: []byte("dest")}
	case "nonptr-string":
		return dest{arg: "dest"}
	case "int":
		return dest{arg: 42}
	case "ptr-int":
		return dest{arg: new(int)}
	case "ptr-struct":
		return dest{arg: &payload{}}
	case "ptr-strings":
		return dest{arg: &[]string{"a"}}
	case "ptr-ptr-bytes":
		var p *[]byte
		return dest{arg: &p}
	case "ptr-ptr-string":
		var p *string
		return dest{arg: &p}
	case "any-nil":
		var a any
		return dest{arg: &a}
	case "any-int":
		var a any = 7
		return dest{arg: &a}
	case "ptr-any":
		var a any = "x"
		return dest{arg: &a}
	}
	panic("c15: unknown destination kind " + kind)
}

// ---------------------------------------------------------------------------
// consumers

func (c *run) bsConsume() {
	sp := c.sp
	supported, _ := kindSupported(mBSCons, sp.Kind)
	content := makeContent(sp.Content, sp.Size, sp.Salt)
	in := c.newInput("in", "", content, sp.Closable)
	d := c.makeDest(sp.Kind, len(in.st.Data))
	cons := newBSConsumer(sp.Closing)
	c.summary = fmt.Sprintf("%s dst=%s content=%s/%d closing=%v closable=%v %s", c.codec, sp.Kind, contentClassNames[sp.Content], len(content), sp.Closing, sp.Closable, c.scriptString(in, d.sink))
	who := c.codec + ":dst=" + sp.Kind

	var err error
	pm := kernel.Catch(func() { err = cons.Consume(in.r, d.arg) })
	c.env.Log("call", "Consume(dst=%s closing=%v) → %s panic=%v", sp.Kind, sp.Closing, errClass(err), pm != "")
	if pm != "" {
		if !supported {
			c.env.Probe("panic-on-unsupported-destination")
		}
		c.violate("panic", who, "ByteStreamConsumer(closing=%v).Consume(<%d bytes>, %s) panicked: %s", sp.Closing, len(in.st.Data), sp.Kind, pm)
		return
	}
	c.checkConsumed(who, supported, in, d, err, true)
	c.checkStreamClose(who, in, sp.Closing, sp.Kind == "nil", outcome(in, c.writeFaultFired(), supported, err))

	// alias check: the first destination must not change when the same consumer is used again
	if sp.Second && supported && err == nil && d.stored != nil && len(content) > 0 && sp.Kind != "writer" {
		c.env.Probe("second-call")
		before := append([]byte(nil), d.stored()...)
		c2 := *c
		c2.sp.ReadErr, c2.sp.WriteErr, c2.sp.ZeroAt, c2.sp.ZeroBudget, c2.sp.Chunk = offNone, offNone, -1, 0, 0
		in2 := c2.newInput("in2", "", other(content), sp.Closable)
		d2 := c2.makeDest(sp.Kind, len(content))
		var err2 error
		if pm := kernel.Catch(func() { err2 = cons.Consume(in2.r, d2.arg) }); pm != "" {
			c.violate("panic", who+":second-call", "second Consume panicked: %s", pm)
			return
		}
		c.env.Log("call", "second Consume → %s", errClass(err2))
		if !bytes.Equal(before, d.stored()) {
			c.violate("alias", who, "the first destination changed when the same consumer consumed another stream (%d bytes, first difference at %d)", len(before), firstDiff(before, d.stored()))
		}
		if err2 == nil && !bytes.Equal(d2.stored(), in2.full) {
			c.violate("bytes-mismatch", who+":second-call", "second call stored %d bytes, read %d", len(d2.stored()), len(in2.full))
		}
		c2.sourceBufferReuse(c, who, cons, content)
	}
}

func (c *run) txConsume() {
	sp := c.sp
	supported, _ := kindSupported(mTxCons, sp.Kind)
	content := makeContent(sp.Content, sp.Size, sp.Salt)
	in := c.newInput("in", "", content, sp.Closable)
	d := c.makeDest(sp.Kind, len(in.st.Data))
	cons := runtime.TextConsumer()
	c.summary = fmt.Sprintf("%s dst=%s content=%s/%d closable=%v %s", c.codec, sp.Kind, contentClassNames[sp.Content], len(content), sp.Closable, c.scriptString(in, nil))
	who := c.codec + ":dst=" + sp.Kind

	var err error
	pm := kernel.Catch(func() { err = cons.Consume(in.r, d.arg) })
	c.env.Log("call", "Consume(dst=%s) → %s panic=%v", sp.Kind, errClass(err), pm != "")
	if pm != "" {
		if !supported {
			c.env.Probe("panic-on-unsupported-destination")
		}
		c.violate("panic", who, "TextConsumer().Consume(<%d bytes>, %s) panicked: %s", len(in.st.Data), sp.Kind, pm)
		return
	}
	// the early nil on an empty input leaves a pre-populated destination alone: accepted
	exact := !(sp.Kind == "prepop-string" && len(in.st.Data) == 0)
	if !exact {
		c.env.Probe("text-empty-input-prepopulated")
	}
	c.checkConsumed(who, supported, in, d, err, exact)
	// the text consumer has no closing option: it never closes
	c.checkStreamClose(who, in, false, false, outcome(in, false, supported, err))

	if sp.Second && supported && err == nil && len(content) > 0 {
		c.env.Probe("second-call")
		before := append([]byte(nil), d.stored()...)
		c2 := *c
		c2.sp.ReadErr, c2.sp.WriteErr, c2.sp.ZeroAt, c2.sp.ZeroBudget, c2.sp.Chunk = offNone, offNone, -1, 0, 0
		in2 := c2.newInput("in2", "", other(content), sp.Closable)
		d2 := c2.makeDest(sp.Kind, len(content))
		var err2 error
		if pm := kernel.Catch(func() { err2 = cons.Consume(in2.r, d2.arg) }); pm != "" {
			c.violate("panic", who+":second-call", "second Consume panicked: %s", pm)
			return
		}
		c.env.Log("call", "second Consume → %s", errClass(err2))
		if !bytes.Equal(before, d.stored()) {
			c.violate("alias", who, "the first destination changed when the same consumer consumed another stream")
		}
		if err2 == nil && !bytes.Equal(d2.stored(), in2.full) {
			c.violate("bytes-mismatch", who+":second-call", "second call stored %d bytes, read %d", len(d2.stored()), len(in2.full))
		}
		c2.sourceBufferReuse(c, who, cons, content)
	}
}

// outcome names how the call ended, for close-accounting signatures.
func outcome(in *input, writeFault, supported bool, err error) string {
	switch {
	case !supported:
		return "unsupported"
	case in != nil && in.faulty:
		return "read-error"
	case writeFault:
		return "write-error"
	case err != nil:
		return "error"
	}
	return "ok"
}

// checkConsumed holds the byte-exactness and error oracles of a consumer call.
func (c *run) checkConsumed(who string, supported bool, in *input, d dest, err error, exact bool) {
	wf := c.writeFaultFired()
	switch {
	case in.faulty || wf:
		fault := "read-error"
		if !in.faulty {
			fault = "write-error"
		}
		if in.faulty && !in.st.TermDelivered {
			c.env.Probe("read-error-not-reached")
		}
		if err == nil {
			stored := -1
			if d.stored != nil {
				stored = len(d.stored())
			}
			c.violate("short-success", who+":"+fault, "%s reported success although an injected %s fired or was pending (prefix %d of %d bytes, destination holds %d)",
				c.codec, fault, len(in.st.Data), len(in.full), stored)
		} else if !kernel.IsInjected(err) {
			c.env.Probe("injected-error-replaced")
		}
	case !supported:
		if err == nil && len(in.full) > 0 {
			c.violate("no-error", who, "%s accepted an unsupported destination (%s) for a non-empty input of %d bytes", c.codec, c.sp.Kind, len(in.full))
		}
		if err == nil && len(in.full) == 0 {
			c.env.Probe("unsupported-destination-empty-input-nil")
		}
	default:
		if err != nil {
			c.violate("spurious-error", who, "%s failed without any injected fault on %d bytes", c.codec, len(in.full))
			return
		}
		if !exact {
			return
		}
		got := d.stored()
		if !bytes.Equal(got, in.full) {
			c.violate("bytes-mismatch", who+":"+describeBytes(got, in.full), "stored %d bytes, the stream delivered %d (first difference at %d; term-with-data=%v chunk=%d zero-reads=%v)",
				len(got), len(in.full), firstDiff(got, in.full), c.sp.TermWithData, c.sp.Chunk, in.st.ZeroReadDelivered || c.sp.ZeroAt >= 0)
		}
	}
}

// checkStreamClose: the underlying stream is closed iff the option was asked for.
func (c *run) checkStreamClose(who string, in *input, closing, earlyReject bool, how string) {
	if !c.sp.Closable {
		if in.st.Closed > 0 {
			c.violate("close-unrequested", who+":hidden", "a stream whose Close was hidden got closed")
		}
		return
	}
	sig := c.codec + ":stream:" + how
	if earlyReject {
		sig = who + ":stream"
	}
	switch {
	case closing && in.st.Closed == 0:
		c.violate("close-missing", sig, "closing option requested but the stream was not closed (outcome %s)", how)
	case !closing && in.st.Closed > 0:
		c.violate("close-unrequested", sig, "stream closed %d times although the closing option was not requested (outcome %s)", in.st.Closed, how)
	}
	if in.st.Closed > 1 {
		c.env.Probe("stream-closed-twice")
	}
	if in.st.ReadsAfterClose > 0 {
		c.env.Probe("read-after-close")
	}
}

func firstDiff(a, b []byte) int {
	n := min(len(a), len(b))
	for i := 0; i < n; i++ {
		if a[i] != b[i] {
			return i
		}
	}
	return n
}

func (c *run) scriptString(in *input, sk *kernel.Sink) string {
	s := ""
	if in != nil {
		s = fmt.Sprintf("stream{prefix=%d term=%s with-data=%v chunk=%d zero-at=%d zero-budget=%d}", len(in.st.Data), errClass(in.st.Term), in.st.TermWithData, c.sp.Chunk, c.sp.ZeroAt, c.sp.ZeroBudget)
	}
	if sk != nil {
		s += fmt.Sprintf(" sink{fail-at=%d}", sk.FailAt)
	}
	return s
}

func newBSConsumer(closing bool) runtime.Consumer {
	if closing {
		return runtime.ByteStreamConsumer(runtime.ClosesStream)
	}
	return runtime.ByteStreamConsumer()
}

func newBSProducer(closing bool) runtime.Producer {
	if closing {
		return runtime.ByteStreamProducer(runtime.ClosesStream)
	}
	return runtime.ByteStreamProducer()
}

// ---------------------------------------------------------------------------
// producers

// source is a payload handed to a producer.
type source struct {
	arg    any
	expect []byte // bytes a fault-free call must write
	in     *input // reader-kind payloads
	closer bool   // the payload is an io.ReadCloser
}

func (c *run) makeSource(kind string, content []byte) source {
	str := string(content)
	pl := payload{Message: string(bytes.ToValidUTF8(content, []byte("?"))), Code: len(content), Tags: []string{"a", "<b>"}}
	switch kind {
	case "bytes":
		return source{arg: content, expect: content}
	case "nil-bytes":
		// a byte slice that was never filled: zero bytes to send, not "no data"
		return source{arg: []byte(nil), expect: nil}
	case "string":
		return source{arg: str, expect: content}
	case "named-bytes":
		return source{arg: namedBytes(content), expect: content}
	case "named-string":
		return source{arg: namedString(str), expect: content}
	case "ptr-bytes":
		b := append([]byte(nil), content...)
		return source{arg: &b, expect: content}
	case "ptr-string":
		return source{arg: &str, expect: content}
	case "ptr-named-string":
		s := namedString(str)
		return source{arg: &s, expect: content}
	case "reader":
		in := c.newInput("source", "source", content, false)
		return source{arg: in.r, expect: content, in: in}
	case "readcloser":
		in := c.newInput("source", "source", content, true)
		return source{arg: in.r, expect: content, in: in, closer: true}
	case "writerto":
		in := c.newInput("source", "source", content, false)
		return source{arg: &wtSrc{r: in.r}, expect: content, in: in}
	case "writerto-readcloser":
		in := c.newInput("source", "source", content, true)
		return source{arg: &wtcSrc{wtSrc: wtSrc{r: in.r}, st: in.st}, expect: content, in: in, closer: true}
	case "binary-marshaler":
		return source{arg: &bmSrc{b: content}, expect: content}
	case "text-marshaler":
		return source{arg: &tmSrc{b: content}, expect: content}
	case "text-marshaler+stringer":
		// like time.Time or *big.Float: a display form and a wire form; only the wire form reads back
		return source{arg: &tmStrSrc{tmSrc{b: content}}, expect: content}
	case "error":
		return source{arg: &errSrc{s: str}, expect: content}
	case "stringer":
		return source{arg: &strSrc{s: str}, expect: content}
	case "struct":
		b, _ := json.Marshal(pl)
		return source{arg: pl, expect: b}
	case "ptr-struct":
		b, _ := json.Marshal(pl)
		return source{arg: &pl, expect: b}
	case "strings":
		v := []string{pl.Message, "x"}
		b, _ := json.Marshal(v)
		return source{arg: v, expect: b}
	case "nil":
		return source{arg: nil}
	case "bool":
		return source{arg: true}
	case "int":
		return source{arg: 42}
	case "ptr-int":
		return source{arg: new(int)}
	case "map":
		return source{arg: map[string]string{"a": str}}
	case "ptr-any":
		var a any = str
		return source{arg: &a}
	case "ptr-ptr-string":
		p := &str
		return source{arg: &p}
	case "nil-ptr-string":
		return source{arg: (*string)(nil)}
	case "nil-ptr-bytes":
		return source{arg: (*[]byte)(nil)}
	case "nil-ptr-struct":
		return source{arg: (*payload)(nil)}
	}
	panic("c15: unknown source kind " + kind)
}

func (c *run) bsProduce() { c.produce(mBSProd) }
func (c *run) txProduce() { c.produce(mTxProd) }

func (c *run) produce(mode int) {
	sp := c.sp
	supported, _ := kindSupported(mode, sp.Kind)
	content := makeContent(sp.Content, sp.Size, sp.Salt)
	src := c.makeSource(sp.Kind, content)
	expectLen := len(src.expect)
	if src.in != nil {
		expectLen = len(src.in.st.Data)
	}
	sk, w := c.newSink("out", expectLen, sp.Closable)
	var prod runtime.Producer
	closing := false
	if mode == mBSProd {
		closing = sp.Closing
		prod = newBSProducer(closing)
	} else {
		prod = runtime.TextProducer()
	}
	c.summary = fmt.Sprintf("%s src=%s content=%s/%d closing=%v closable-sink=%v %s", c.codec, sp.Kind, contentClassNames[sp.Content], len(content), closing, sp.Closable, c.scriptString(src.in, sk))
	who := c.codec + ":src=" + sp.Kind

	var err error
	pm := kernel.Catch(func() { err = prod.Produce(w, src.arg) })
	c.env.Log("call", "Produce(src=%s closing=%v) → %s panic=%v", sp.Kind, closing, errClass(err), pm != "")
	if pm != "" {
		c.violate("panic", who, "%s Produce(%s) panicked: %s", c.codec, sp.Kind, pm)
		return
	}
	readFault := src.in != nil && src.in.faulty
	wf := c.writeFaultFired()
	switch {
	case readFault || wf:
		fault := "read-error"
		if !readFault {
			fault = "write-error"
		}
		if err == nil {
			c.violate("short-success", who+":"+fault, "%s reported success although an injected %s fired or was pending (%d of %d bytes reached the writer)", c.codec, fault, len(sk.Buf), len(src.expect))
		} else if !kernel.IsInjected(err) {
			c.env.Probe("injected-error-replaced")
		}
	case !supported:
		if err == nil {
			c.violate("no-error", who, "%s accepted an unsupported source (%s)", c.codec, sp.Kind)
		}
	default:
		if err != nil {
			c.violate("spurious-error", who, "%s failed without any injected fault", c.codec)
		} else if !bytes.Equal(sk.Buf, src.expect) {
			c.violate("bytes-mismatch", who+":"+describeBytes(sk.Buf, src.expect), "wrote %d bytes, the source has %d (first difference at %d; term-with-data=%v chunk=%d)",
				len(sk.Buf), len(src.expect), firstDiff(sk.Buf, src.expect), sp.TermWithData, sp.Chunk)
		}
	}
	how := outcome(src.in, wf, supported, err)
	// the writer is closed iff the option was requested
	if sp.Closable {
		sig := c.codec + ":sink:" + how
		if sp.Kind == "nil" {
			sig = who + ":sink"
		}
		switch {
		case closing && sk.Closed == 0:
			c.violate("close-missing", sig, "closing option requested but the writer was not closed (outcome %s)", how)
		case !closing && sk.Closed > 0:
			c.violate("close-unrequested", sig, "writer closed %d times although the closing option was not requested (outcome %s)", sk.Closed, how)
		}
		if sk.Closed > 1 {
			c.env.Probe("sink-closed-twice")
		}
	}
	// a closable source payload is always closed
	if src.in != nil {
		switch {
		case src.closer && src.in.st.Closed == 0:
			c.violate("close-missing", who+":source:"+how, "the closable source payload was not closed when Produce returned (outcome %s)", how)
		case !src.closer && src.in.st.Closed > 0:
			c.violate("close-unrequested", who+":source", "a source payload whose Close was hidden got closed")
		}
		if src.in.st.Closed > 1 {
			c.env.Probe("source-closed-twice")
		}
		if src.in.st.ReadsAfterClose > 0 {
			c.env.Probe("source-read-after-close")
		}
	}
}

// sourceBufferReuse: the stream is one of the caller's own in-memory buffers, and the caller refills that memory after
// the call (a pooled buffer, a scratch slice): what the destination holds must not move with it.
func (c2 *run) sourceBufferReuse(c *run, who string, cons runtime.Consumer, content []byte) {
	for _, mk := range []string{"bytes.Buffer", "bytes.Reader"} {
		backing := append([]byte(nil), content...)
		var r io.Reader
		var buf *bytes.Buffer
		if mk == "bytes.Buffer" {
			buf = bytes.NewBuffer(backing)
			r = buf
		} else {
			r = bytes.NewReader(backing)
		}
		d3 := c2.makeDest(c.sp.Kind, len(content))
		if d3.stored == nil {
			return
		}
		var err3 error
		if pm := kernel.Catch(func() { err3 = cons.Consume(r, d3.arg) }); pm != "" {
			c.violate("panic", who+":source="+mk, "Consume from a *%s panicked: %s", mk, pm)
			return
		}
		c.env.Log("call", "Consume from the caller's *%s → %s", mk, errClass(err3))
		if err3 != nil {
			c.violate("spurious-error", who+":source="+mk, "Consume from a *%s over %d bytes failed without any fault", mk, len(content))
			return
		}
		got := append([]byte(nil), d3.stored()...)
		if !bytes.Equal(got, content) {
			c.violate("bytes-mismatch", who+":source="+mk, "from a *%s: stored %d bytes, the source held %d (first difference at %d)", mk, len(got), len(content), firstDiff(got, content))
			return
		}
		for i := range backing {
			backing[i] ^= 0x55
		}
		if buf != nil {
			buf.Reset()
			buf.WriteString("refilled by the caller")
		}
		if !bytes.Equal(d3.stored(), got) {
			c.violate("alias", who+":source="+mk, "the destination changed when the caller refilled its own *%s after the call (first difference at %d)", mk, firstDiff(got, d3.stored()))
			return
		}
	}
}
