package c15

import (
	"encoding/json"
	"sort"

	"verif.local/sim/kernel"
)

// sweepContent is one (content class, size parameter) of the byte-exact codecs.
type sweepContent struct{ class, size int }

var quickContents = []sweepContent{{ccShort, 10}, {ccEmpty, 0}}
var thoroughContents = []sweepContent{
	{ccShort, 10}, {ccEmpty, 0}, {ccBinary, 39}, {ccInvalidUTF8, 8}, {ccShort, 0},
	{ccBinary, 255}, {ccMedium, 9}, {ccMedium, 0}, {ccMedium, 8}, {ccLarge, 2},
}

// offsets returns every offset 0..n for short contents, and a sample that
// keeps the ends and the buffer boundaries for long ones.
func offsets(n int) []int {
	if n <= 320 {
		out := make([]int, n+1)
		for i := range out {
			out[i] = i
		}
		return out
	}
	set := map[int]bool{}
	for _, o := range []int{0, 1, 2, 3, n - 3, n - 2, n - 1, n, 511, 512, 513, 4095, 4096, 4097, 32767, 32768, 32769} {
		if o >= 0 && o <= n {
			set[o] = true
		}
	}
	for o := 0; o <= n; o += max(1, n/24) {
		set[o] = true
	}
	out := make([]int, 0, len(set))
	for o := range set {
		out = append(out, o)
	}
	sort.Ints(out)
	return out
}

func chunksFor(n int) []int {
	if n > 8192 {
		return []int{0, 1000, 4096}
	}
	return []int{1, 2, 7, 0}
}

var readerSources = map[string]bool{"reader": true, "readcloser": true, "writerto": true, "writerto-readcloser": true}

type sweepBuilder struct{ out []kernel.Scenario }

func (b *sweepBuilder) add(sp spec) {
	p, _ := json.Marshal(sp)
	b.out = append(b.out, kernel.Scenario{Name: "sweep", Params: p})
}

func baseSpec(mode int, kind string, content, size, salt int) spec {
	return spec{Mode: mode, Kind: kind, Content: content, Size: size, Salt: salt, Closable: true, ReadErr: offNone, WriteErr: offNone, ZeroAt: -1}
}

// axes adds, for one (mode, kind, content) whose stream content has length n:
// every read-error offset, every zero-read position (both × chunk × terminal
// with data × closing) and, if the case has a scripted writer whose expected
// output has length wn, every write-error offset.
func (b *sweepBuilder) axes(base spec, n int, readAxis bool, wn int, writeAxis bool, closings []bool) {
	offs := offsets(n)
	if readAxis {
		for _, off := range append([]int{offNone}, offs...) {
			for _, ch := range chunksFor(n) {
				for _, twd := range []bool{false, true} {
					for _, cl := range closings {
						sp := base
						sp.ReadErr, sp.Chunk, sp.TermWithData, sp.Closing = off, ch, twd, cl
						b.add(sp)
					}
				}
			}
		}
		for _, z := range offs {
			for _, ch := range chunksFor(n) {
				for _, twd := range []bool{false, true} {
					sp := base
					sp.ZeroAt, sp.Chunk, sp.TermWithData = z, ch, twd
					b.add(sp)
				}
			}
		}
	}
	if writeAxis {
		for _, off := range offsets(wn) {
			for _, cl := range closings {
				sp := base
				sp.WriteErr, sp.Closing = off, cl
				b.add(sp)
				if readAxis {
					sp.Chunk = 1
					if n > 8192 {
						sp.Chunk = 1000
					}
					sp.TermWithData = true
					b.add(sp)
				}
			}
		}
	}
	// closing option × closable, no fault, whole chunks
	for _, cl := range closings {
		for _, cb := range []bool{true, false} {
			sp := base
			sp.Closing, sp.Closable, sp.Second = cl, cb, true
			b.add(sp)
		}
	}
}

func (prop) Sweep(tier string) []kernel.Scenario {
	thorough := tier == "thorough"
	b := &sweepBuilder{}
	contents := quickContents
	if thorough {
		contents = thoroughContents
	}
	both, never := []bool{false, true}, []bool{false}
	for _, ct := range contents {
		n := contentLen(ct.class, ct.size)
		for _, k := range bsConsKinds {
			base := baseSpec(mBSCons, k.name, ct.class, ct.size, 3)
			if k.supported {
				b.axes(base, n, true, n, k.name == "writer", both)
			} else {
				b.unsupported(base, n, both)
			}
		}
		for _, k := range txConsKinds {
			base := baseSpec(mTxCons, k.name, ct.class, ct.size, 3)
			if k.supported {
				b.axes(base, n, true, 0, false, never)
			} else {
				b.unsupported(base, n, never)
			}
		}
		for _, k := range bsProdKinds {
			base := baseSpec(mBSProd, k.name, ct.class, ct.size, 3)
			if k.supported {
				wn := len((&run{sp: base}).expectOnly(k.name, ct))
				b.axes(base, n, readerSources[k.name], wn, true, both)
			} else {
				b.unsupported(base, n, both)
			}
		}
		for _, k := range txProdKinds {
			base := baseSpec(mTxProd, k.name, ct.class, ct.size, 3)
			if k.supported {
				wn := len((&run{sp: base}).expectOnly(k.name, ct))
				b.axes(base, n, false, wn, true, never)
			} else {
				b.unsupported(base, n, never)
			}
		}
	}
	classes := []int{vcSmall}
	salts := []int{0}
	if thorough {
		classes = []int{vcSmall, vcFull, vcSpecial, vcNumbers, vcBig}
		salts = []int{0, 1, 2}
	}
	for mode := mJSON; mode <= mYAML; mode++ {
		for _, k := range kindsOf(mode) {
			for _, class := range classes {
				for _, salt := range salts {
					base := baseSpec(mode, k.name, class, 0, salt)
					src, _, _, _ := structuredValue(mode, k.name, class, salt)
					ref, _ := encodeRef(mode, src)
					if k.supported {
						b.axes(base, len(ref), true, len(ref), true, never)
					} else {
						b.unsupported(base, len(ref), never)
					}
				}
			}
		}
	}
	return b.out
}

// unsupported kinds: no fault, an error at the start, an error in place of EOF.
func (b *sweepBuilder) unsupported(base spec, n int, closings []bool) {
	for _, off := range []int{offNone, 0, n} {
		for _, cl := range closings {
			for _, cb := range []bool{true, false} {
				sp := base
				sp.ReadErr, sp.Closing, sp.Closable = off, cl, cb
				b.add(sp)
			}
		}
	}
}

// expectOnly computes the bytes a fault-free producer call must write for a
// non-reader source kind (used to size the write-error axis).
func (c *run) expectOnly(kind string, ct sweepContent) []byte {
	content := makeContent(ct.class, ct.size, c.sp.Salt)
	if readerSources[kind] {
		return content
	}
	return c.makeSource(kind, content).expect
}
