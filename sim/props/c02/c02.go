// Package c02: security requirements are an OR of ANDs; nothing runs unless
// one is satisfied.  SEQ driver with order control: the order in which the
// schemes of one alternative are consulted is a map-iteration order inside the
// analysis dependency (fixed per process, random across processes); here it is
// set per run — exhaustively per generated outcome vector — by permuting the
// exported RouteAuthenticator.Schemes of the built route.
package c02

import (
	stdctx "context"
	stderrors "errors"
	"fmt"
	"net/http"
	"net/http/httptest"
	"os"
	"sort"
	"strings"
	"testing"

	"github.com/go-openapi/errors"
	"github.com/go-openapi/runtime"
	"github.com/go-openapi/runtime/middleware"

	"verif.local/sim/kernel"
	"verif.local/sim/simapi"
)

type prop struct{}

func init() { kernel.Register(prop{}) }

func (prop) ID() string     { return "C02" }
func (prop) Engine() string { return "SEQ" }
func (prop) Level() string  { return "exploration" }

func (prop) Budget(tier string) int {
	if tier == "thorough" {
		return 400000
	}
	return 12000
}

func (prop) Sweep(string) []kernel.Scenario { return nil }

func (prop) Describe() kernel.Description {
	return kernel.Description{
		Rule: "Dimensions added with the seed waves: scheme names a requirement uses but the description does not define; rejection errors of every kind incl. ones wrapping context/deadline sentinels; an authorizer that panics; a front middleware running programs over {Authorize, ResetAuth}; re-authorize after ResetAuth in the accessor flow; security registered after NewContext; every handler constructor of the Context (APIHandler, APIHandlerSwaggerUI, APIHandlerRapiDoc, RoutesHandler); request context cancelled while the k-th consultation runs. " +
			"one run = one generated API (2–4 security definitions, some without a registered authenticator; requirement list of 1–3 alternatives with 1–3 schemes " +
			"and scopes each, optionally the empty alternative, global or per-operation), one outcome per scheme (not applicable / accepts with principal / accepts with nil " +
			"principal / rejects with an error of code 401, 403, 418 or a plain error), authorizer absent / accepting / denying with a plain error / denying with its own status, " +
			"and one request whose rest is right or wrong (bad Content-Type, unacceptable Accept, invalid parameter, invalid body). The request is served once for EVERY " +
			"consultation order of the schemes inside each alternative (all permutations, capped at 36 combinations per run), through the full API handler or through the " +
			"accessor sequence generated servers use (RouteInfo → Authorize → bind → handler). A reference model over the observed consultation trace decides admission, " +
			"refusal status, principal and scopes, and that neither the body stream, a consumer nor the handler was touched on refusal. distinct = distinct (structure, " +
			"vector, order, outcome) history signature; non-trivial = ≥2 consultation orders were compared or a fault-like outcome (reject / nil principal / not applicable / " +
			"unregistered scheme / denying authorizer / broken request) was present.",
		Real: []string{"middleware.Context (APIHandler, RouteInfo, Authorize, BindValidRequest)", "middleware.RouteAuthenticator(s).Authenticate", "middleware.newSecureAPI",
			"middleware router build (buildAuthenticators)", "analysis.SecurityRequirementsFor"},
		Stubs: []string{"authenticators, authorizer, consumer, operation handler (scripted, identity-tagged)", "request body (scripted stream counting reads)",
			"consultation order (permutation of RouteAuthenticator.Schemes)"},
		Assumptions: []string{
			"the model speaks only about schemes that were actually consulted: a legitimately short-circuited AND (first not-applicable scheme aborts) is never flagged, " +
				"so anonymous admission is refused only when a *consulted* scheme rejected presented credentials",
			"when several alternatives are satisfied any of them may be the admitting one",
			"refusal status: any consulted rejecting scheme's code is accepted (the implementation reports the last one)",
		},
	}
}

const (
	oNA = iota
	oAccept
	oNil
	oReject
	oRejectWithPrincipal // the scheme rejects the credential (error) but hands back a principal as well
)

type scn struct {
	schemes    []string
	registered map[string]bool
	alts       []map[string][]string // the effective requirement list of the operation
	global     bool
	outcome    map[string]int
	granted    map[string][]string // scopes the presented credential of each scheme is good for
	errKind    map[string]int      // 0:401 1:403 2:418 3:plain
	authz      int                 // 0 none 1 accept 2 deny plain 3 deny 402 4 panics
	broken     int                 // 0 ok 1 content-type 2 accept 3 query 4 body
	cancelAt   int                 // >0: the request context is cancelled while the k-th authenticator consultation runs
	flow       int                 // 0 full handler 1 accessor sequence
	undefined  map[string]bool     // named by a requirement but absent from securityDefinitions (a typo or a rename in the description)
	front      string              // flow 2: what the application middleware does before the operation executor: A = Authorize, R = ResetAuth
	oauthLike  map[string]bool     // schemes defined as oauth2 whose authenticator only understands the scoped form of the request
	lateReg    bool                // authenticators and the authorizer are registered after NewContext, before the handler is built
	door       int                 // which handler constructor of the Context: 0 APIHandler 1 APIHandlerSwaggerUI 2 APIHandlerRapiDoc 3 RoutesHandler
	reauth     bool                // flow 1: after a successful Authorize the caller drops the result (ResetAuth) and authorizes again
}

func (s *scn) String() string {
	var alts []string
	for _, a := range s.alts {
		var names []string
		for k, sc := range a {
			names = append(names, fmt.Sprintf("%s%v", k, sc))
		}
		sort.Strings(names)
		alts = append(alts, "{"+strings.Join(names, ",")+"}")
	}
	var outs []string
	for _, n := range s.schemes {
		reg := ""
		if !s.registered[n] {
			reg = "(unregistered)"
		}
		outs = append(outs, fmt.Sprintf("%s%s=%s(granted %v)", n, reg, []string{"n/a", "accept", "accept-nil", "reject", "reject+principal"}[s.outcome[n]], s.granted[n]))
	}
	return fmt.Sprintf("security=%s global=%v outcomes=[%s] authorizer=%d broken=%d flow=%d front=%q reauth=%v door=%d", strings.Join(alts, " OR "), s.global, strings.Join(outs, " "), s.authz, s.broken, s.flow, s.front, s.reauth, s.door)
}

func generate(t *kernel.Tape) *scn {
	s := &scn{registered: map[string]bool{}, outcome: map[string]int{}, errKind: map[string]int{}, granted: map[string][]string{}}
	n := 2 + t.Choose(3, "nschemes")
	s.schemes = []string{"A", "B", "C", "D"}[:n]
	for _, name := range s.schemes {
		s.registered[name] = !t.Bool(8, "unregistered")
		s.outcome[name] = t.Weighted("outcome", 3, 4, 2, 3, 1)
		s.errKind[name] = t.Choose(6, "errkind")
		s.granted[name] = [][]string{{"read", "write"}, {"read"}, {"write"}, nil}[t.Weighted("granted", 3, 1, 1, 1)]
	}
	nalt := 1 + t.Choose(3, "nalts")
	for i := 0; i < nalt; i++ {
		alt := map[string][]string{}
		if !t.Bool(5, "empty-alt") {
			k := 1 + t.Choose(min(3, n), "alt-size")
			perm := t.Perm(n, "alt-pick")
			for _, p := range perm[:k] {
				var scopes []string
				for _, sc := range []string{"read", "write"} {
					if t.Bool(3, "scope") {
						scopes = append(scopes, sc)
					}
				}
				alt[s.schemes[p]] = scopes
			}
		}
		s.alts = append(s.alts, alt)
	}
	s.global = t.Bool(3, "global")
	s.authz = t.Weighted("authz", 3, 3, 2, 1, 1)
	s.broken = t.Weighted("broken", 5, 1, 1, 1, 1)
	s.flow = t.Choose(3, "flow")
	if t.Bool(6, "context-cancelled-during-authentication") {
		s.cancelAt = 1 + t.Choose(3, "cancel-at-consultation")
	}
	s.undefined = map[string]bool{}
	if t.Bool(5, "undefined-scheme") {
		name := s.schemes[t.Choose(len(s.schemes), "which-undefined")]
		s.undefined[name] = true
		s.registered[name] = false // nothing can be looked up for a name the description does not define
	}
	s.front = "A"
	if s.flow == 2 {
		s.front = []string{"A", "R", "AR", "RA", "ARA", ""}[t.Weighted("front-program", 3, 2, 2, 2, 2, 1)]
	}
	if s.flow == 1 && s.cancelAt == 0 {
		s.reauth = t.Bool(3, "authorize-again-after-reset")
	}
	s.door = t.Weighted("handler-constructor", 3, 1, 1, 1)
	s.lateReg = t.Bool(4, "security-registered-after-the-context-exists")
	s.oauthLike = map[string]bool{}
	for _, name := range s.schemes {
		s.oauthLike[name] = t.Bool(3, "oauth2-like-scheme")
	}
	return s
}

func rejectErr(kind int, scheme string) error {
	switch kind {
	case 0:
		return errors.Unauthenticated(scheme)
	case 1:
		return errors.New(http.StatusForbidden, "scheme %s forbids", scheme)
	case 2:
		return errors.New(418, "scheme %s is a teapot", scheme)
	case 4:
		// the scheme's own lookup was interrupted: still an error of a scheme that found credentials
		return fmt.Errorf("scheme %s: checking the credential: %w", scheme, stdctx.Canceled)
	case 5:
		return fmt.Errorf("scheme %s: credential store: %w", scheme, os.ErrDeadlineExceeded)
	}
	return stderrors.New("scheme " + scheme + " failed")
}

func rejectCode(kind int) int { return []int{401, 403, 418, 500, 500, 500}[kind] }

// permutations of 0..n-1 in lexicographic order
func permutations(n int) [][]int {
	var out [][]int
	var rec func(cur []int, used []bool)
	rec = func(cur []int, used []bool) {
		if len(cur) == n {
			out = append(out, append([]int(nil), cur...))
			return
		}
		for i := 0; i < n; i++ {
			if !used[i] {
				used[i] = true
				rec(append(cur, i), used)
				used[i] = false
			}
		}
	}
	rec(nil, make([]bool, n))
	return out
}

func (prop) Run(t *testing.T, tape *kernel.Tape, sc kernel.Scenario) *kernel.Result {
	env := kernel.NewEnv(tape)
	res := &kernel.Result{}
	s := generate(tape)
	res.Summary = s.String()
	salt := kernel.DrawOrder(tape)
	_ = salt
	defer kernel.UninstallOrder()

	// ---- API description
	api := &simapi.API{BasePath: "/api", Consumes: []string{"application/json"}, Produces: []string{"application/json"}, SecDefs: map[string]map[string]any{}}
	for _, n := range s.schemes {
		if s.undefined[n] {
			continue
		}
		api.SecDefs[n] = simapi.APIKeyDef("X-Key-" + n)
		if s.oauthLike[n] {
			api.SecDefs[n] = map[string]any{"type": "oauth2", "flow": "implicit", "authorizationUrl": "http://sim.local/auth/" + n, "scopes": map[string]any{"read": "r", "write": "w"}}
		}
	}
	op := simapi.Op{Method: "POST", Path: "/secure/{id}", ID: "secured", Params: []simapi.Param{
		{Name: "id", In: "path", Type: "string"},
		{Name: "n", In: "query", Type: "integer", Format: "int32"},
		{Name: "X-Req", In: "header", Type: "string"},
		{Name: "payload", In: "body"},
	}}
	if s.global {
		api.Security = s.alts
	} else {
		op.Security = &s.alts
	}
	api.Ops = []simapi.Op{op, {Method: "GET", Path: "/open", ID: "open", Security: &[]map[string][]string{}}}
	doc, err := api.Doc()
	if err != nil {
		res.Infra = "generated description does not load: " + err.Error()
		return res
	}
	world := simapi.NewWorld(1)
	consultations = 0
	cancelRequest = nil
	u := simapi.NewUntyped(doc)
	u.RegisterConsumer("application/json", &simapi.Consumer{W: world, Tag: "json", Inner: runtime.JSONConsumer()})
	u.RegisterProducer("application/json", &simapi.Producer{W: world, Tag: "json", Inner: runtime.JSONProducer()})
	registerSecurity := func() {
		for _, n := range s.schemes {
			if !s.registered[n] {
				continue
			}
			n := n
			u.RegisterAuth(n, &simapi.Auth{W: world, Scheme: n, ScopedOnly: s.oauthLike[n], OnCall: func() {
				consultations++
				if s.cancelAt > 0 && consultations == s.cancelAt && cancelRequest != nil {
					cancelRequest() // the client went away while credentials were being checked
				}
			}, Outcome: func(_ int, _ *http.Request, required []string) simapi.AuthOutcome {
				switch s.outcome[n] {
				case oAccept:
					// the presented credential is good for s.granted[n] only
					for _, sc := range required {
						if !containsStr(s.granted[n], sc) {
							return simapi.AuthOutcome{Applies: true, Err: errors.New(http.StatusForbidden, "scheme %s: scope %s not granted", n, sc)}
						}
					}
					return simapi.AuthOutcome{Applies: true, Principal: "P-" + n}
				case oNil:
					return simapi.AuthOutcome{Applies: true}
				case oReject:
					return simapi.AuthOutcome{Applies: true, Err: rejectErr(s.errKind[n], n)}
				case oRejectWithPrincipal:
					return simapi.AuthOutcome{Applies: true, Principal: "locked-" + n, Err: rejectErr(s.errKind[n], n)}
				}
				return simapi.AuthOutcome{}
			}})
		}
		switch s.authz {
		case 1, 2, 3, 4:
			u.RegisterAuthorizer(&simapi.Authorizer{W: world, Decide: func(int, *http.Request, any) error {
				switch s.authz {
				case 4:
					panic("authorizer: principal of an unexpected type")
				case 2:
					return stderrors.New("authorizer says no")
				case 3:
					return errors.New(402, "payment required")
				}
				return nil
			}})
		}
	}
	if !s.lateReg {
		registerSecurity()
	}
	u.RegisterOperation("POST", "/secure/{id}", &simapi.Handler{W: world, Op: "secured"})
	u.RegisterOperation("GET", "/open", &simapi.Handler{W: world, Op: "open"})
	ctx := middleware.NewContext(doc, u, nil)
	if s.lateReg {
		// legal, if rare: the Context exists first, authenticators and authorizer are registered before the first handler is built
		registerSecurity()
	}
	// the same pipeline behind each of the doors the Context offers
	mkHandler := func(b middleware.Builder) http.Handler {
		switch s.door {
		case 1:
			return ctx.APIHandlerSwaggerUI(b)
		case 2:
			return ctx.APIHandlerRapiDoc(b)
		case 3:
			return ctx.RoutesHandler(b)
		}
		return ctx.APIHandler(b)
	}
	handler := mkHandler(nil)
	if s.flow == 2 {
		// an application middleware in front of the operation executor that looks at the principal
		// (for logging, say) and does not act on a refusal: refusing is the secure wrapper's job
		handler = mkHandler(func(next http.Handler) http.Handler {
			return http.HandlerFunc(func(w http.ResponseWriter, r *http.Request) {
				if route, rr, ok := ctx.RouteInfo(r); ok {
					r = rr
					for _, step := range s.front {
						switch step {
						case 'A':
							if _, ra, err := ctx.Authorize(r, route); err == nil && ra != nil {
								r = ra
							}
						case 'R':
							// e.g. a front middleware that does not trust a principal set further upstream
							r = ctx.ResetAuth(r)
						}
					}
				}
				next.ServeHTTP(w, r)
			})
		})
	}

	// ---- the route entry whose Schemes we permute
	probe := httptest.NewRequest("POST", "/api/secure/x", nil)
	route, ok := ctx.LookupRoute(probe)
	if !ok {
		res.Infra = "route not found"
		return res
	}
	// alternatives in the router's order correspond to s.alts in order
	total := 1
	for _, ra := range route.Authenticators {
		ps := permutations(len(ra.Schemes))
		if len(ps) == 0 {
			ps = [][]int{{}}
		}
		total *= len(ps)
	}
	rounds := total
	if rounds > 36 {
		rounds = 36
	}
	if rounds > 1 {
		env.Fault("consultation-order-permuted")
	}
	markFaults(env, s)

	initialAlts := ""
	for round := 0; round < rounds; round++ {
		idx := round
		if total > 36 {
			idx = tape.Choose(total, "order-index")
		}
		// the requirement structure of the route belongs to the description: serving requests must not change it
		// (as a multiset of scheme sets: in which order the route keeps its alternatives is its own business)
		canonAlt := func(names []string) string {
			n := append([]string(nil), names...)
			if len(n) == 0 {
				n = []string{""}
			}
			sort.Strings(n)
			return strings.Join(n, "&")
		}
		var haveAlts []string
		for i := range route.Authenticators {
			haveAlts = append(haveAlts, canonAlt(route.Authenticators[i].Schemes))
		}
		sort.Strings(haveAlts)
		if round == 0 {
			// how the route chose to keep the requirement (it may prune or reorder when it is built) is judged by how it
			// answers requests; what serving requests must not do is change it
			initialAlts = strings.Join(haveAlts, "|")
		}
		changed := strings.Join(haveAlts, "|") != initialAlts
		if changed {
			var now []string
			for i := range route.Authenticators {
				now = append(now, strings.Join(route.Authenticators[i].Schemes, "&"))
			}
			env.Violate("C02/route-structure-changed", "alternatives-reordered-by-serving", "after %d served requests the route's alternatives are [%s], before the first one they were [%s] (%s)", round, strings.Join(now, " | "), initialAlts, s.String())
			break
		}
		var orderDesc []string
		for i := range route.Authenticators {
			// (taken from the route as it is now: it may keep its alternatives in whatever order it likes)
			b := append([]string(nil), route.Authenticators[i].Schemes...)
			sort.Strings(b)
			ps := permutations(len(b))
			if len(ps) == 0 {
				ps = [][]int{{}}
			}
			p := ps[idx%len(ps)]
			idx /= len(ps)
			for j, src := range p {
				route.Authenticators[i].Schemes[j] = b[src]
			}
			orderDesc = append(orderDesc, strings.Join(route.Authenticators[i].Schemes, ">"))
		}
		*world.Slots[0] = simapi.Obs{AuthScopes: map[string][]string{}}
		obs := serve(env, s, ctx, handler, world)
		env.Log("order", "%s → %s", strings.Join(orderDesc, " | "), obs)
		judge(env, s, obs, world.Slots[0], strings.Join(orderDesc, " | "))
		if len(env.Viol) > 0 {
			break
		}
	}
	res.FromEnv(env)
	return res
}

func markFaults(env *kernel.Env, s *scn) {
	for _, n := range s.schemes {
		used := false
		for _, a := range s.alts {
			if _, ok := a[n]; ok {
				used = true
			}
		}
		if !used {
			continue
		}
		if s.undefined[n] {
			env.Fault("undefined-scheme")
			continue
		}
		if !s.registered[n] {
			env.Fault("unregistered-scheme")
			continue
		}
		switch s.outcome[n] {
		case oNA:
			env.Fault("not-applicable")
		case oNil:
			env.Fault("nil-principal")
		case oReject, oRejectWithPrincipal:
			env.Fault("reject")
		}
	}
	if s.authz == 4 {
		env.Fault("authorizer-panics")
	} else if s.authz >= 2 {
		env.Fault("authorizer-denies")
	}
	if s.broken != 0 {
		env.Fault("broken-request")
	}
	if s.cancelAt > 0 {
		env.Fault("context-cancelled-during-authentication")
	}
}

// per-run hooks shared by the scripted authenticators (runs are sequential within a worker)
var (
	consultations int
	cancelRequest func()
)

type observed struct {
	status    int
	authErr   error // accessor flow: error of Authorize
	principal any
	hasPrinc  bool
	scopes    []string
	admitting []string // Schemes of MatchedRoute.Authenticator
	bodyReads int
	sameReq   bool
	panicked  bool // the authorizer's panic came out of the call
}

func (o observed) String() string {
	return fmt.Sprintf("status=%d authErr=%v principal=%v scopes=%v admitting=%v bodyReads=%d", o.status, o.authErr, o.principal, o.scopes, o.admitting, o.bodyReads)
}

func buildRequest(env *kernel.Env, s *scn) (*http.Request, *kernel.Stream) {
	body := []byte(`{"req":0,"x":"y"}`)
	if s.broken == 4 {
		body = []byte(`{"req":0,`)
	}
	st := kernel.NewStream(env, "reqbody", body)
	target := "/api/secure/it%2Fem?n=7"
	if s.broken == 3 {
		target = "/api/secure/it%2Fem?n=seven"
	}
	r := httptest.NewRequest("POST", target, st)
	r.ContentLength = int64(len(body))
	r.Header.Set("Content-Length", fmt.Sprint(len(body)))
	r.Header.Set("Content-Type", "application/json")
	if s.broken == 1 {
		r.Header.Set("Content-Type", "text/weird")
	}
	r.Header.Set("Accept", "application/json")
	if s.broken == 2 {
		r.Header.Set("Accept", "image/png")
	}
	r.Header.Set("X-Req", "0")
	for _, n := range s.schemes {
		r.Header.Set("X-Key-"+n, "cred-"+n)
	}
	return r, st
}

type nopBinder struct{ called *int }

func (b nopBinder) BindRequest(*http.Request, *middleware.MatchedRoute) error {
	*b.called++
	return nil
}

func serve(env *kernel.Env, s *scn, ctx *middleware.Context, handler http.Handler, world *simapi.World) observed {
	var o observed
	r, st := buildRequest(env, s)
	consultations = 0
	cancelRequest = nil
	if s.cancelAt > 0 {
		cctx, cancel := stdctx.WithCancel(r.Context())
		r = r.WithContext(cctx)
		cancelRequest = cancel
		defer cancel()
	}
	rec := httptest.NewRecorder()
	if s.flow == 0 || s.flow == 2 {
		if pm := kernel.Catch(func() { handler.ServeHTTP(rec, r) }); pm != "" {
			if s.authz == 4 && world.Slots[0].AuthzCalls > 0 {
				o.panicked = true // the authorizer's own panic unwinding to the server: nothing may have run
			} else {
				env.Violate("C02/panic", "full-handler", "serving panicked: %s", pm)
			}
		}
		o.status = rec.Code
		o.bodyReads = st.Reads
		if world.Slots[0].AuthzPrincSet {
			o.principal, o.hasPrinc = world.Slots[0].AuthzPrinc, true
		}
		return o
	}
	// accessor sequence of generated servers
	pm := kernel.Catch(func() {
		route, rCtx, ok := ctx.RouteInfo(r)
		if !ok {
			o.status = 404
			return
		}
		r = rCtx
		if route.HasAuth() {
			princ, rAuth, err := ctx.Authorize(r, route)
			if err != nil {
				o.authErr = err
				ctx.Respond(rec, r, route.Produces, route, err)
				o.status = rec.Code
				return
			}
			if rAuth != nil {
				r = rAuth
			}
			if s.reauth {
				r0 := ctx.ResetAuth(r)
				if p := middleware.SecurityPrincipalFrom(r0); p != nil {
					env.Violate("C02/principal-mismatch", "after-reset", "after ResetAuth the request context still carries principal %v", p)
				}
				before := consultations
				princ2, r2, err2 := ctx.Authorize(r0, route)
				switch {
				case err2 != nil:
					env.Violate("C02/second-authorize-differs", "error", "Authorize admitted the request with principal %v; after ResetAuth the same request is refused: %v", princ, err2)
				case princ2 != princ:
					env.Violate("C02/second-authorize-differs", "principal", "Authorize admitted the request with principal %v; after ResetAuth it is admitted with principal %v", princ, princ2)
				case princ != nil && consultations == before:
					env.Violate("C02/second-authorize-differs", "nobody-consulted", "after ResetAuth the request was admitted with principal %v without any scheme being consulted", princ2)
				}
				if r2 != nil {
					r = r2
				}
			}
			o.principal, o.hasPrinc = princ, true
			if p := middleware.SecurityPrincipalFrom(r); p != princ {
				env.Violate("C02/principal-mismatch", "context-vs-return", "Authorize returned %v, the request context carries %v", princ, p)
			}
			o.scopes = append([]string(nil), middleware.SecurityScopesFrom(r)...)
			sort.Strings(o.scopes) // their order comes from a map iteration inside the analysis dependency
			if mr := middleware.MatchedRouteFrom(r); mr != nil && mr.Authenticator != nil {
				o.admitting = append([]string(nil), mr.Authenticator.Schemes...)
			}
		}
		called := 0
		if err := ctx.BindValidRequest(r, route, nopBinder{&called}); err != nil {
			ctx.Respond(rec, r, route.Produces, route, err)
			o.status = rec.Code
			return
		}
		world.Slots[0].HandlerRan++
		o.status = 200
	})
	if pm != "" {
		if s.authz == 4 && world.Slots[0].AuthzCalls > 0 {
			o.panicked = true
		} else {
			env.Violate("C02/panic", "accessor-flow", "accessor sequence panicked: %s", pm)
		}
	}
	o.bodyReads = st.Reads
	return o
}

func judge(env *kernel.Env, s *scn, o observed, slot *simapi.Obs, order string) {
	satisfied := func(alt map[string][]string) bool {
		if len(alt) == 0 {
			return false
		}
		for n, required := range alt {
			if !s.registered[n] || s.outcome[n] != oAccept {
				return false
			}
			for _, sc := range required {
				if !containsStr(s.granted[n], sc) {
					return false
				}
			}
		}
		return true
	}
	anyS, anon := false, false
	for _, a := range s.alts {
		if satisfied(a) {
			anyS = true
		}
		if len(a) == 0 {
			anon = true
		}
	}
	var errCodes []int
	for k, n := range slot.AuthCalls {
		switch s.outcome[n] {
		case oReject, oRejectWithPrincipal:
			errCodes = append(errCodes, rejectCode(s.errKind[n]))
		case oAccept:
			// a consultation that asked for a scope the credential is not good for was rejected with 403
			if k < len(slot.AuthCallScopes) {
				for _, sc := range slot.AuthCallScopes[k] {
					if !containsStr(s.granted[n], sc) {
						errCodes = append(errCodes, 403)
						break
					}
				}
			}
		}
	}
	// the scopes handed to a scheme must be those some alternative declares for it
	for k, n := range slot.AuthCalls {
		if k >= len(slot.AuthCallScopes) {
			break
		}
		ok := false
		for _, a := range s.alts {
			if req, in := a[n]; in && sameSet(req, slot.AuthCallScopes[k]) {
				ok = true
			}
		}
		if !ok {
			env.Violate("C02/wrong-scopes-required", "scheme-asked-for-undeclared-scopes", "order %s: scheme %s was asked for scopes %v, which no alternative declares for it", order, n, slot.AuthCallScopes[k])
			return
		}
	}
	consultedErr := len(errCodes) > 0
	// a reject anywhere among registered schemes of the requirement list
	anyReject := false
	for _, a := range s.alts {
		for n, required := range a {
			if s.registered[n] && (s.outcome[n] == oReject || s.outcome[n] == oRejectWithPrincipal) {
				anyReject = true
			}
			if s.registered[n] && s.outcome[n] == oAccept {
				for _, sc := range required {
					if !containsStr(s.granted[n], sc) {
						anyReject = true
					}
				}
			}
		}
	}
	admittedObserved := slot.AuthzCalls > 0 || slot.HandlerRan > 0 || (s.flow == 1 && o.authErr == nil) ||
		(s.flow != 1 && s.authz == 0 && o.status != 0 && !isAuthStatus(o.status, errCodes))
	// ---- soundness: admission needs a satisfied alternative (or clean anonymous)
	if admittedObserved && !anyS && !(anon && !consultedErr) {
		sig := cause(s, anon, consultedErr)
		if s.flow == 2 {
			sig = "after-an-earlier-rejected-authorize"
			if s.front != "A" {
				sig = "front-middleware-program-" + s.front
			}
		}
		env.Violate("C02/admitted-without-satisfied-alternative", sig,
			"order %s: request was admitted (authorizer calls %d, handler ran %d, status %d) although no alternative is satisfied (consulted %v)", order, slot.AuthzCalls, slot.HandlerRan, o.status, slot.AuthCalls)
		return
	}
	// ---- completeness: a satisfied alternative must admit; clean anonymous must admit
	mustAdmit := anyS || (anon && !anyReject)
	if mustAdmit && !admittedObserved {
		why := "satisfied-alternative"
		if !anyS {
			why = "anonymous"
		}
		env.Violate("C02/refused-although-satisfied", why, "order %s: %s should admit the request, got status %d (consulted %v, authErr %v)", order, why, o.status, slot.AuthCalls, o.authErr)
		return
	}
	if !admittedObserved {
		// refusal: status, and nothing ran
		want := []int{401}
		if consultedErr {
			want = errCodes
		}
		if !containsInt(want, o.status) {
			env.Violate("C02/refusal-status", fmt.Sprintf("consulted-error=%v", consultedErr), "order %s: refused with %d, want one of %v (consulted %v)", order, o.status, want, slot.AuthCalls)
		}
		if slot.HandlerRan > 0 || len(slot.Consumers) > 0 || o.bodyReads > 0 {
			env.Violate("C02/ran-although-refused", "stage-order", "order %s: refused request still ran handler=%d consumers=%v bodyReads=%d", order, slot.HandlerRan, slot.Consumers, o.bodyReads)
		}
		return
	}
	// ---- admitted: authorizer, principal, scopes
	if s.authz != 0 && slot.AuthzCalls == 0 {
		env.Violate("C02/authorizer-skipped", "admitted", "order %s: request admitted but the registered authorizer was not asked", order)
		return
	}
	if o.hasPrinc {
		// the principal must come from a satisfied alternative that contains its scheme …
		okPrinc, fromUnsatisfied := false, false
		for _, a := range s.alts {
			for n := range a {
				if o.principal != "P-"+n {
					continue
				}
				if !satisfied(a) {
					fromUnsatisfied = true
					continue
				}
				if s.flow == 1 {
					// … and the admitting alternative and scopes visible to the handler must be that alternative's
					if sameSet(o.admitting, keys(a)) && sameSet(o.scopes, unionScopes(a)) {
						okPrinc = true
					}
				} else {
					okPrinc = true
				}
			}
		}
		if !anyS && anon && o.principal == nil {
			okPrinc = true
			if s.flow == 1 && len(o.admitting) != 0 && !(len(o.admitting) == 1 && o.admitting[0] == "") {
				okPrinc = false
			}
		}
		if !okPrinc {
			if s.flow == 1 && len(o.admitting) > 0 {
				// which alternative admitted?  if that one is not satisfied, it is the admission that is wrong
				for _, a := range s.alts {
					if sameSet(o.admitting, keys(a)) && len(a) > 0 && !satisfied(a) {
						env.Violate("C02/admitted-without-satisfied-alternative", cause(s, anon, consultedErr),
							"order %s: the admitting alternative %v is not satisfied (principal %v, scopes %v, consulted %v)", order, o.admitting, o.principal, o.scopes, slot.AuthCalls)
						return
					}
				}
			}
			if fromUnsatisfied {
				env.Violate("C02/admitted-without-satisfied-alternative", cause(s, anon, consultedErr),
					"order %s: principal %v comes from an alternative that is not satisfied (consulted %v)", order, o.principal, slot.AuthCalls)
				return
			}
			env.Violate("C02/principal-or-scopes-wrong", fmt.Sprintf("flow=%d", s.flow), "order %s: principal %v scopes %v admitting alternative %v do not come from one satisfied alternative", order, o.principal, o.scopes, o.admitting)
			return
		}
	}
	if s.authz == 4 {
		// an authorizer that panics has not accepted the principal
		if slot.HandlerRan > 0 || len(slot.Consumers) > 0 || o.bodyReads > 0 || (s.flow == 1 && o.authErr == nil && !o.panicked) {
			env.Violate("C02/ran-although-refused", "authorizer-panicked", "order %s: the authorizer panicked, yet handler=%d consumers=%v bodyReads=%d status=%d (panic came out of the call: %v)", order, slot.HandlerRan, slot.Consumers, o.bodyReads, o.status, o.panicked)
		}
		return
	}
	if s.authz >= 2 {
		want := 403
		if s.authz == 3 {
			want = 402
		}
		if o.status != want {
			env.Violate("C02/authorizer-status", fmt.Sprint(s.authz), "order %s: authorizer denied, status %d, want %d", order, o.status, want)
		}
		if slot.HandlerRan > 0 || len(slot.Consumers) > 0 || o.bodyReads > 0 {
			env.Violate("C02/ran-although-refused", "authorizer", "order %s: authorizer denied but handler=%d consumers=%v bodyReads=%d", order, slot.HandlerRan, slot.Consumers, o.bodyReads)
		}
		return
	}
	// admitted and authorised: a valid request reaches the handler
	if s.flow == 1 && s.broken > 1 {
		return // parameter binding and Accept handling are the generated binder's business on this path
	}
	if s.broken == 0 && slot.HandlerRan != 1 {
		env.Violate("C02/valid-request-not-served", fmt.Sprintf("flow=%d", s.flow), "order %s: admitted, authorised and valid, but the handler ran %d times (status %d)", order, slot.HandlerRan, o.status)
	}
	if s.broken != 0 && s.broken != 4 && slot.HandlerRan != 0 {
		env.Violate("C02/broken-request-served", fmt.Sprint(s.broken), "order %s: broken request (kind %d) reached the handler", order, s.broken)
	}
}

func isAuthStatus(status int, errCodes []int) bool {
	return status == 401 || containsInt(errCodes, status)
}

func cause(s *scn, anon, consultedErr bool) string {
	for _, a := range s.alts {
		if len(a) == 0 {
			continue
		}
		allAcceptish, hasNil, hasUnreg, regAccept := true, false, false, true
		for n := range a {
			if !s.registered[n] {
				hasUnreg = true
				continue
			}
			switch s.outcome[n] {
			case oAccept:
			case oNil:
				hasNil = true
			default:
				allAcceptish = false
				regAccept = false
			}
		}
		if allAcceptish && hasNil && !hasUnreg {
			return "nil-principal-in-and"
		}
		if regAccept && hasUnreg && !hasNil {
			return "unregistered-scheme-in-and"
		}
		if allAcceptish && hasNil && hasUnreg {
			return "nil-principal+unregistered-in-and"
		}
	}
	if anon && consultedErr {
		return "anonymous-despite-rejection"
	}
	return "other"
}

func containsStr(l []string, x string) bool {
	for _, v := range l {
		if v == x {
			return true
		}
	}
	return false
}

func containsInt(l []int, x int) bool {
	for _, v := range l {
		if v == x {
			return true
		}
	}
	return false
}

func keys(m map[string][]string) []string {
	var out []string
	for k := range m {
		out = append(out, k)
	}
	return out
}

func unionScopes(m map[string][]string) []string {
	seen := map[string]bool{}
	var out []string
	for _, v := range m {
		for _, s := range v {
			if !seen[s] {
				seen[s] = true
				out = append(out, s)
			}
		}
	}
	return out
}

func sameSet(a, b []string) bool {
	x := append([]string(nil), a...)
	y := append([]string(nil), b...)
	sort.Strings(x)
	sort.Strings(y)
	return strings.Join(x, "\x00") == strings.Join(y, "\x00")
}
