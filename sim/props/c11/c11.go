// Package c11: client bodies — the bytes sent are the payload, and what the
// auth writer saw through GetBody is what is sent.  K1: the multipart writer
// goroutine, the caller (auth writer calling GetBody) and the transport
// pulling from the pipe are three parties whose relative progress the tape
// decides, over upload sources with scripted chunking.
package c11

import (
	"bytes"
	"context"
	"fmt"
	"io"
	"mime"
	"mime/multipart"
	"net/http"
	"net/url"
	"path/filepath"
	"sort"
	"strings"
	"testing"

	"github.com/go-openapi/runtime"
	"github.com/go-openapi/runtime/client"
	"github.com/go-openapi/strfmt"

	"verif.local/sim/kernel"
	"verif.local/sim/simhttp"
)

type prop struct{}

func init() { kernel.Register(prop{}) }

func (prop) ID() string     { return "C11" }
func (prop) Engine() string { return "K1" }
func (prop) Level() string  { return "exploration" }

func (prop) Budget(tier string) int {
	if tier == "thorough" {
		return 1200000
	}
	return 50000
}

func (prop) Sweep(tier string) []kernel.Scenario { return nil }

func (prop) Describe() kernel.Description {
	return kernel.Description{
		Rule: "Dimensions added with the seed waves: in-memory reader payloads (*bytes.Buffer, *bytes.Reader, *strings.Reader); source errors of several values (private, io.ErrUnexpectedEOF, wrapping io.EOF, io.ErrClosedPipe, wrapping context.Canceled), transient or reported once; an auth writer that inspects the request; the writer installed as Runtime.DefaultAuthentication; sources renamed with runtime.NamedReader; debug mode; seekable sources handed over past their start. " +
			"one run = one Runtime.Submit in a synctest bubble; payload kind drawn from {nil, value × (json,xml,text,bytes,yaml producer), io.Reader, " +
			"io.ReadCloser, urlencoded fields, multipart fields, files, fields+files} with 1–3 field names, several values and files per name, " +
			"awkward file names (quotes, backslashes, directories, spaces), contents of every length around the 512-byte sniffing window " +
			"(text / binary / PNG-like / empty), declared ContentType() or not, first read shorter than the window, zero-length reads, data+EOF; " +
			"auth writer calling GetBody 0/1/2/3 times; map iteration order of fields/files permuted; the schedule (upload-source reads vs. " +
			"transport pulls vs. caller) from the tape. Oracle: bytes received by the simulated transport, parsed with mime/multipart / url.ParseQuery / " +
			"compared with an independent call of the same producer, equal the supplied payload part for part; every GetBody result equals the bytes sent. " +
			"A fault-injecting twin (source read error) only requires: never a success carrying wrong data. distinct = distinct history signature; " +
			"non-trivial = ≥2 operations parked together or ≥1 fault kind fired.",
		Real: []string{"client.Runtime.Submit / createHttpRequest", "client.request.buildHTTP (body selection, multipart goroutine + io.Pipe, sniffing, GetBody override)",
			"runtime producers (JSON, XML, text, byte stream, YAML)", "mime/multipart writer and reader", "net/http.Client.Do"},
		Stubs: []string{"network: SimTransport", "upload sources: scripted streams", "params writer / auth writer / response reader"},
		Assumptions: []string{
			"file and field names contain no control characters (MIME header syntax is not the library's); names do not end in a path separator",
			"the expected sniffed type is net/http.DetectContentType over the first min(512,len) bytes of the file content",
			"parts are compared as a multiset (order follows map iteration and is not promised)",
		},
	}
}

type fileSpec struct {
	field, name string
	data        []byte
	ct          string // declared content type ("" = none)
	errAt       int
	st          *kernel.Stream
	wrapName    string // non-empty: the source is wrapped in runtime.NamedReader under this name
	startAt     int    // seekable source handed over positioned here (0 = plain source)
	seekable    bool
}

func (f *fileSpec) sentName() string {
	if f.wrapName != "" {
		return f.wrapName
	}
	return f.name
}

type world struct {
	env       *kernel.Env
	method    string
	presetCT  string
	idx       int
	conc      string
	kind      string
	mediaType string
	value     any
	raw       []byte // reader payloads
	inspect   bool   // the auth writer looks at method, path, headers, query, payload and files before asking for the body
	memKind   int    // memreader: 0 *bytes.Buffer 1 *bytes.Reader 2 *strings.Reader
	rawStream *kernel.Stream
	fields    []struct {
		name   string
		values []string
	}
	files     []*fileSpec
	getBody   int
	getBodies [][]byte
	fault     bool
}

var nameAlphabet = []string{"a", "b", "up", ".txt", ".bin", "\"", "\\", "/", " ", ";", "=", "%", "é", "dir/", "x", "\u00a0", "\u202f", "\u200b", "日", "\t"}

func genName(t *kernel.Tape) string {
	n := 1 + t.Choose(4, "name-parts")
	var sb strings.Builder
	for i := 0; i < n; i++ {
		sb.WriteString(nameAlphabet[t.Choose(len(nameAlphabet), "name-part")])
	}
	s := sb.String()
	if strings.HasSuffix(s, "/") || strings.HasSuffix(s, " ") || strings.HasSuffix(s, ".") {
		s += "f"
	}
	return s
}

func genContent(t *kernel.Tape) []byte {
	var n int
	switch t.Choose(5, "clen") {
	case 0:
		n = 505 + t.Choose(16, "clen-window")
	case 1:
		n = t.Choose(24, "clen-tiny")
	case 2:
		n = t.Choose(512, "clen-below")
	case 3:
		n = 513 + t.Choose(3000, "clen-above")
	default:
		n = 0
	}
	b := make([]byte, n)
	switch t.Choose(5, "ckind") {
	case 0: // plain text
		for i := range b {
			b[i] = "the quick brown fox\n"[i%20]
		}
	case 1: // binary
		for i := range b {
			b[i] = byte(i*131 + 7)
		}
	case 2: // PNG signature
		copy(b, "\x89PNG\r\n\x1a\n")
		for i := 8; i < n; i++ {
			b[i] = byte(i)
		}
	case 3: // html-ish
		copy(b, "<html><body>")
		for i := 12; i < n; i++ {
			b[i] = 'x'
		}
	default: // text whose 513th byte onward is binary
		for i := range b {
			if i < 512 {
				b[i] = 'a' + byte(i%26)
			} else {
				b[i] = 0
			}
		}
	}
	return b
}

func (w *world) WriteToRequest(req runtime.ClientRequest, _ strfmt.Registry) error {
	_ = req.SetHeaderParam("X-Up", fmt.Sprint(w.idx))
	if w.presetCT != "" {
		_ = req.SetHeaderParam("Content-Type", w.presetCT) // a stale header left by the caller must not survive
	}
	for _, f := range w.fields {
		_ = req.SetFormParam(f.name, append([]string(nil), f.values...)...) // the request gets its own copy of what the oracle compares against
	}
	switch w.kind {
	case "value":
		_ = req.SetBodyParam(w.value)
	case "reader":
		_ = req.SetBodyParam(kernel.ReaderOnly{S: w.rawStream})
	case "readcloser":
		_ = req.SetBodyParam(io.ReadCloser(w.rawStream))
	case "memreader":
		switch w.memKind {
		case 0:
			_ = req.SetBodyParam(bytes.NewBuffer(append([]byte(nil), w.raw...)))
		case 1:
			_ = req.SetBodyParam(bytes.NewReader(append([]byte(nil), w.raw...)))
		default:
			_ = req.SetBodyParam(strings.NewReader(string(w.raw)))
		}
	}
	byField := map[string][]runtime.NamedReadCloser{}
	var order []string
	for _, f := range w.files {
		if _, ok := byField[f.field]; !ok {
			order = append(order, f.field)
		}
		up := &simhttp.UploadFile{Stream: f.st, FileName: f.name}
		var nrc runtime.NamedReadCloser = up
		if f.ct != "" {
			nrc = &simhttp.UploadFileCT{UploadFile: up, CT: f.ct}
		} else if f.seekable {
			nrc = &simhttp.SeekableUpload{UploadFile: up}
		}
		if f.wrapName != "" {
			// the caller renames an already named reader: the name given to NamedReader is the one that counts
			nrc = runtime.NamedReader(f.wrapName, nrc)
		}
		byField[f.field] = append(byField[f.field], nrc)
	}
	for _, fld := range order {
		if err := req.SetFileParam(fld, byField[fld]...); err != nil {
			return err
		}
	}
	return nil
}

func (w *world) AuthenticateRequest(req runtime.ClientRequest, _ strfmt.Registry) error {
	if w.inspect {
		simhttp.Inspect(req)
	}
	for i := 0; i < w.getBody; i++ {
		b := req.GetBody()
		w.getBodies = append(w.getBodies, append([]byte(nil), b...))
		w.env.Probe(fmt.Sprintf("getbody-call-%d", i+1))
	}
	return req.SetHeaderParam("X-Sig", "1")
}

type xmlVal struct {
	XMLName struct{} `xml:"v"`
	A       string   `xml:"a"`
	B       int      `xml:"b"`
}

func genWorld(tape *kernel.Tape, env *kernel.Env, idx int) (*world, bool) {
	w := &world{env: env, idx: idx}
	pfx := fmt.Sprintf("c%d-", idx)
	w.kind = []string{"files", "both", "form-multi", "form-url", "value", "reader", "readcloser", "none", "memreader"}[tape.Choose(9, "kind")]
	w.method = []string{"POST", "POST", "PUT", "PATCH", "GET", "DELETE"}[tape.Choose(6, "method")]
	if tape.Bool(5, "preset-content-type") {
		w.presetCT = []string{"application/x-stale", "text/plain", "application/json"}[tape.Choose(3, "preset")]
	}
	w.getBody = tape.Weighted("getbody", 3, 3, 2, 1)
	useAuth := w.getBody > 0 || tape.Bool(3, "auth-without-getbody")
	w.inspect = useAuth && tape.Bool(3, "auth-writer-inspects-the-request")
	w.fault = tape.Bool(6, "source-fault?")
	transient := w.fault && tape.Bool(2, "transient?")
	switch w.kind {
	case "files", "both", "form-multi":
		w.mediaType = "multipart/form-data"
	case "form-url":
		w.mediaType = "application/x-www-form-urlencoded"
	case "reader", "readcloser":
		w.mediaType = "application/octet-stream"
	case "memreader":
		// the caller's payload is one of the standard library's in-memory readers
		w.mediaType = "application/octet-stream"
		w.raw = genContent(tape)
		w.memKind = tape.Choose(3, "in-memory-reader-kind")
	case "value":
		w.mediaType = []string{"application/json", "application/xml", "text/plain", "application/octet-stream", "application/x-yaml"}[tape.Choose(5, "producer")]
		if (w.mediaType == "application/json" || w.mediaType == "text/plain") && tape.Bool(5, "byte-slice-value") {
			// a []byte handed over as a *value*: what goes out is what the media type's producer makes of it
			w.value = tape.Bytes(1+tape.Choose(60, "vlen"), []byte("ab=&\"\n{"), "vbyte")
		} else {
			switch w.mediaType {
			case "application/json", "application/x-yaml":
				w.value = map[string]any{"s": string(tape.Bytes(tape.Choose(40, "vlen"), []byte("ab<>&\"é \n"), "vbyte")), "n": tape.Choose(1000, "vn")}
			case "application/xml":
				w.value = xmlVal{A: string(tape.Bytes(tape.Choose(40, "vlen"), []byte("ab<>&\" "), "vbyte")), B: tape.Choose(1000, "vn")}
			case "text/plain":
				w.value = string(tape.Bytes(tape.Choose(600, "vlen"), []byte("ab \n\x00é"), "vbyte"))
			default:
				w.value = tape.Bytes(tape.Choose(600, "vlen"), []byte{0, 1, 'a', 0xff, '\n'}, "vbyte")
			}
		}
	}
	if w.kind == "both" || w.kind == "form-multi" || w.kind == "form-url" {
		n := 1 + tape.Choose(3, "nfields")
		used := map[string]bool{}
		for i := 0; i < n; i++ {
			name := []string{"f", "g", "na\"me", "a b", "k=v"}[tape.Choose(5, "fname")]
			if used[name] {
				continue
			}
			used[name] = true
			nv := 1 + tape.Choose(3, "nvalues")
			var vals []string
			for j := 0; j < nv; j++ {
				vals = append(vals, string(tape.Bytes(tape.Choose(30, "fvlen"), []byte("ab&=+ %é\r\n\"-"), "fvbyte")))
			}
			w.fields = append(w.fields, struct {
				name   string
				values []string
			}{name, vals})
		}
	}
	setFault := func(st *kernel.Stream, data []byte, what string) {
		off := tape.Choose(len(data)+1, "err-off")
		if len(data) >= 513 && tape.Bool(3, "fault-at-the-sniffing-window-edge") {
			off = []int{511, 512, 513}[tape.Choose(3, "window-edge")]
		}
		if transient {
			st.TransientErrAt = off
			return
		}
		st.Data = data[:off]
		st.Term = &kernel.InjectedError{What: what}
		// which error value the source fails with, and whether it says so once only (io.Reader does not promise more)
		switch tape.Weighted("source-error-value", 3, 1, 1, 1, 1) {
		case 3:
			st.Term = io.ErrClosedPipe
			env.Fault("source-error-is-io.ErrClosedPipe")
		case 4:
			st.Term = fmt.Errorf("source cancelled: %w", context.Canceled)
			env.Fault("source-error-wraps-context.Canceled")
		case 1:
			st.Term = io.ErrUnexpectedEOF // what a truncated download used as the upload's source reports
			env.Fault("source-error-is-io.ErrUnexpectedEOF")
		case 2:
			st.Term = fmt.Errorf("source gone: %w", io.EOF)
			env.Fault("source-error-wraps-io.EOF")
		}
		st.ErrOnce = tape.Bool(3, "source-error-reported-once")
	}
	if w.kind == "reader" || w.kind == "readcloser" {
		w.raw = genContent(tape)
		w.rawStream = kernel.NewStream(env, pfx+"payload", w.raw)
		w.rawStream.Tag = "source"
		w.rawStream.ChunkMode = tape.Choose(4, "pchunk")
		w.rawStream.FixedChunk = 1 + tape.Choose(700, "pfixed")
		w.rawStream.ZeroReads = tape.Choose(3, "pzero")
		w.rawStream.TermWithData = tape.Bool(2, "pwithdata")
		if w.fault {
			setFault(w.rawStream, w.raw, "payload read error")
		}
	}
	if w.kind == "files" || w.kind == "both" {
		n := 1 + tape.Choose(3, "nfiles")
		faultFile := tape.Choose(n, "fault-file")
		for i := 0; i < n; i++ {
			f := &fileSpec{field: []string{"file", "file", "doc", "fi\"le"}[tape.Choose(4, "ffield")], name: genName(tape), data: genContent(tape), errAt: -1}
			// every upload carries its own identity in the first bytes (cross-talk is attributable)
			if len(f.data) >= 8 {
				copy(f.data, fmt.Sprintf("U%dF%d:", idx, i))
			}
			if tape.Bool(4, "declared-ct") {
				f.ct = []string{"text/x-sim", "application/pdf", "image/png"}[tape.Choose(3, "ct")]
			}
			st := kernel.NewStream(env, fmt.Sprintf("%sfile%d", pfx, i), f.data)
			st.Tag = "source"
			st.ChunkMode = tape.Choose(4, "fchunk")
			st.FixedChunk = 1 + tape.Choose(700, "ffixed")
			if tape.Bool(2, "short-first") {
				st.FirstChunk = 1 + tape.Choose(600, "first")
			}
			st.ZeroReads = tape.Choose(3, "fzero")
			st.TermWithData = tape.Bool(2, "fwithdata")
			if w.fault && i == faultFile {
				setFault(st, f.data, "file read error")
			} else if f.ct == "" && tape.Bool(4, "seekable-source") {
				// like an *os.File the application has already read an envelope from
				f.seekable = true
				f.startAt = tape.Choose(len(f.data)+1, "start-offset")
				st.Pos = f.startAt
			}
			if f.ct == "" && !f.seekable && tape.Bool(5, "renamed-with-NamedReader") {
				f.wrapName = "renamed-" + genName(tape)
			}
			f.st = st
			w.files = append(w.files, f)
		}
	}
	return w, useAuth
}

func (w *world) sourceFailed() bool {
	for _, f := range w.files {
		if (f.st.TermDelivered && f.st.Term != nil) || f.st.TransientDelivered {
			return true
		}
	}
	if w.rawStream != nil && ((w.rawStream.TermDelivered && w.rawStream.Term != nil) || w.rawStream.TransientDelivered) {
		return true
	}
	return false
}

func (prop) Run(t *testing.T, tape *kernel.Tape, sc kernel.Scenario) *kernel.Result {
	env := kernel.NewEnv(tape)
	res := &kernel.Result{}
	kernel.DrawOrder(tape)
	defer kernel.UninstallOrder()

	// 1..3 uploads in flight at once on ONE Runtime (each call has its own request state)
	ncalls := 1 + tape.Weighted("concurrent-calls", 3, 1, 1)
	worlds := make([]*world, ncalls)
	auths := make([]bool, ncalls)
	var sums []string
	for i := range worlds {
		worlds[i], auths[i] = genWorld(tape, env, i)
		sums = append(sums, worlds[i].summary())
	}
	defaultAuth := tape.Bool(3, "auth-writer-is-the-runtime-default")
	debugMode := tape.Bool(6, "debug-mode")
	if debugMode {
		env.Fault("debug-mode")
	}
	res.Summary = strings.Join(sums, " || ")
	if ncalls > 1 {
		env.Fault("concurrent-calls")
	}

	submitErr := make([]error, ncalls)
	submitPanic := make([]string, ncalls)
	var tr *simhttp.SimTransport
	kernel.RunBubble(t, env, func(k *kernel.K1) {
		k.MaxSteps = 120000
		tr = &simhttp.SimTransport{Env: env, Name: "net", Now: k.Now}
		pull, pullFixed := tape.Choose(4, "pull"), 1+tape.Choose(900, "pullfixed")
		tr.PlanFor = func(int, *http.Request) *simhttp.Plan {
			p := simhttp.DefaultPlan()
			p.PullMode, p.PullFixed = pull, pullFixed
			p.Status = 204
			return p
		}
		rt := client.New("sim.local", "/", []string{"http"})
		rt.Transport = tr
		if debugMode {
			rt.Debug = true
			rt.SetLogger(quietLogger{})
		}
		for i := range worlds {
			i, w := i, worlds[i]
			op := &runtime.ClientOperation{ID: "send", Method: w.method, PathPattern: "/send", Schemes: []string{"http"},
				ConsumesMediaTypes: []string{w.mediaType}, ProducesMediaTypes: []string{"application/json"},
				Params: w,
				Reader: runtime.ClientResponseReaderFunc(func(r runtime.ClientResponse, _ runtime.Consumer) (any, error) { return r.Code(), nil })}
			if auths[i] {
				op.AuthInfo = w
				if len(worlds) == 1 && defaultAuth {
					// the same writer as the Runtime's default authentication instead of the operation's own
					op.AuthInfo = nil
					rt.DefaultAuthentication = w
				}
			}
			k.Go(fmt.Sprintf("caller%d", i), func() {
				submitPanic[i] = kernel.Catch(func() { _, submitErr[i] = rt.Submit(op) })
			})
		}
		k.Run()
		if !k.Stuck && !k.Overrun {
			k.SettleAll()
		}
		if k.Overrun || k.Stuck {
			res.Infra = fmt.Sprintf("run did not finish (stuck=%v overrun=%v)", k.Stuck, k.Overrun)
		}
	})
	if res.Infra != "" {
		res.FromEnv(env)
		return res
	}
	byCall := map[string]*simhttp.Exchange{}
	for _, ex := range tr.Exchanges {
		id := ex.Header.Get("X-Up")
		if _, dup := byCall[id]; dup {
			env.Violate("C11/exchanges", "duplicate", "two exchanges for call %s", id)
		}
		byCall[id] = ex
	}
	conc := ""
	if ncalls > 1 {
		conc = ":concurrent"
	}
	for i, w := range worlds {
		switch {
		case submitPanic[i] != "":
			env.Violate("C11/panic", w.kind, "Submit panicked: %s", submitPanic[i])
		case w.sourceFailed():
			// fault-injecting twin: only "never a success" is required here (the rest is C12's)
			if submitErr[i] == nil {
				env.Violate("C11/success-with-failed-source", w.kind, "an upload source failed (call %d) and Submit reported success", i)
			}
		case submitErr[i] != nil:
			env.Violate("C11/unexpected-error", w.kind, "no fault injected, Submit %d failed: %v", i, submitErr[i])
		default:
			ex := byCall[fmt.Sprint(i)]
			if ex == nil {
				env.Violate("C11/exchanges", w.kind, "no exchange for call %d", i)
				continue
			}
			w.conc = conc
			w.checkBody(ex)
			for j, gb := range w.getBodies {
				if !bytes.Equal(gb, ex.ReqBody) {
					env.Violate("C11/getbody-differs", fmt.Sprintf("%s:call=%d", w.kind, min(j+1, 2)), "GetBody call %d returned %d bytes that are not the %d bytes sent (first difference at %d)", j+1, len(gb), len(ex.ReqBody), firstDiff(gb, ex.ReqBody))
					break
				}
			}
			if w.getBody >= 2 && (w.kind == "files" || w.kind == "both" || w.kind == "form-multi" || w.kind == "reader" || w.kind == "readcloser") {
				env.Probe("getbody-twice-on-streaming-body")
			}
		}
	}
	res.FromEnv(env)
	return res
}

func firstDiff(a, b []byte) int {
	for i := 0; i < len(a) && i < len(b); i++ {
		if a[i] != b[i] {
			return i
		}
	}
	return min(len(a), len(b))
}

func (w *world) summary() string {
	var sb strings.Builder
	fmt.Fprintf(&sb, "%s kind=%s media=%s preset=%q getbody=%d fault=%v fields=%d", w.method, w.kind, w.mediaType, w.presetCT, w.getBody, w.fault, len(w.fields))
	for _, f := range w.files {
		fmt.Fprintf(&sb, " file{%q/%q len=%d ct=%q first=%d chunk=%d start=%d}", f.field, f.name, len(f.data), f.ct, f.st.FirstChunk, f.st.ChunkMode, f.startAt)
	}
	return sb.String()
}

type part struct {
	kind, field, filename, ctype string
	data                         string
}

func (p part) String() string {
	return fmt.Sprintf("%s field=%q filename=%q type=%q len=%d", p.kind, p.field, p.filename, p.ctype, len(p.data))
}

func (w *world) checkBody(ex *simhttp.Exchange) {
	env := w.env
	ct := ex.Header.Get("Content-Type")
	switch w.kind {
	case "none":
		if len(ex.ReqBody) != 0 {
			env.Violate("C11/body-differs", "none", "no payload but %d body bytes were sent", len(ex.ReqBody))
		}
	case "value":
		var want bytes.Buffer
		prod := client.New("x", "/", nil).Producers[w.mediaType]
		if err := prod.Produce(&want, w.value); err != nil {
			return
		}
		if !bytes.Equal(want.Bytes(), ex.ReqBody) {
			env.Violate("C11/body-differs", "value:"+w.mediaType, "sent %d bytes, the %s producer writes %d bytes for the value (first difference at %d)", len(ex.ReqBody), w.mediaType, want.Len(), firstDiff(want.Bytes(), ex.ReqBody))
		}
		w.checkCT(ct)
	case "reader", "readcloser", "memreader":
		if !bytes.Equal(w.raw, ex.ReqBody) {
			env.Violate("C11/body-differs", w.kind, "sent %d bytes, the reader payload has %d (first difference at %d)", len(ex.ReqBody), len(w.raw), firstDiff(w.raw, ex.ReqBody))
		}
		w.checkCT(ct)
	case "form-url":
		got, err := url.ParseQuery(string(ex.ReqBody))
		if err != nil {
			env.Violate("C11/body-differs", "form-url:unparsable", "urlencoded body does not parse: %v", err)
			return
		}
		want := url.Values{}
		for _, f := range w.fields {
			want[f.name] = f.values
		}
		if fmt.Sprint(sortedValues(got)) != fmt.Sprint(sortedValues(want)) {
			env.Violate("C11/body-differs", "form-url", "urlencoded body decodes to %v, fields were %v", sortedValues(got), sortedValues(want))
		}
		w.checkCT(ct)
	default: // multipart
		mt, params, err := mime.ParseMediaType(ct)
		if err != nil || mt != "multipart/form-data" || params["boundary"] == "" {
			env.Violate("C11/content-type", "multipart", "Content-Type %q does not announce a multipart/form-data boundary", ct)
			return
		}
		mr := multipart.NewReader(bytes.NewReader(ex.ReqBody), params["boundary"])
		var got []part
		for {
			p, err := mr.NextRawPart()
			if err == io.EOF {
				break
			}
			if err != nil {
				env.Violate("C11/body-differs", "multipart:unparsable", "multipart body does not parse after %d parts: %v", len(got), err)
				return
			}
			b, err := io.ReadAll(p)
			if err != nil {
				env.Violate("C11/body-differs", "multipart:unparsable", "multipart part does not parse: %v", err)
				return
			}
			_, dparams, _ := mime.ParseMediaType(p.Header.Get("Content-Disposition"))
			pt := part{field: p.FormName(), data: string(b), ctype: p.Header.Get("Content-Type")}
			if fn, ok := dparams["filename"]; ok {
				pt.kind = "file"
				pt.filename = fn
			} else {
				pt.kind = "field"
			}
			got = append(got, pt)
		}
		var want []part
		for _, f := range w.fields {
			for _, v := range f.values {
				want = append(want, part{kind: "field", field: f.name, data: v})
			}
		}
		for _, f := range w.files {
			content := f.data[f.startAt:] // exactly what the handed-over reader yields
			ctype := f.ct
			if ctype == "" {
				head := content
				if len(head) > 512 {
					head = head[:512]
				}
				ctype = http.DetectContentType(head)
			}
			want = append(want, part{kind: "file", field: f.field, filename: filepath.Base(f.sentName()), data: string(content), ctype: ctype})
		}
		sortParts(got)
		sortParts(want)
		if len(got) != len(want) {
			env.Violate("C11/parts-differ", "multipart:count", "%d parts sent, %d supplied\n sent: %v\n want: %v", len(got), len(want), got, want)
			return
		}
		for i := range got {
			if got[i] == want[i] {
				continue
			}
			g, x := got[i], want[i]
			what := "content"
			switch {
			case g.kind != x.kind:
				what = "kind"
			case g.field != x.field:
				what = "field-name"
			case g.filename != x.filename:
				what = "file-name"
			case g.data != x.data:
				what = "content"
			case g.ctype != x.ctype:
				what = "part-content-type"
				if len(x.data) < 512 {
					what += ":content-shorter-than-window"
				} else {
					what += ":first-read-short"
				}
			}
			env.Violate("C11/parts-differ", "multipart:"+what+w.conc, "part %d differs\n sent: %v\n want: %v", i, g, x)
			return
		}
	}
}

func (w *world) checkCT(ct string) {
	mt, _, err := mime.ParseMediaType(ct)
	if err != nil || mt != w.mediaType {
		w.env.Violate("C11/content-type", w.kind, "Content-Type header %q does not describe the %s body that was sent", ct, w.mediaType)
	}
}

func sortParts(p []part) {
	sort.Slice(p, func(i, j int) bool {
		a, b := p[i], p[j]
		if a.kind != b.kind {
			return a.kind < b.kind
		}
		if a.field != b.field {
			return a.field < b.field
		}
		if a.filename != b.filename {
			return a.filename < b.filename
		}
		if a.data != b.data {
			return a.data < b.data
		}
		return a.ctype < b.ctype
	})
}

func sortedValues(v url.Values) []string {
	var out []string
	for k, vs := range v {
		for _, x := range vs {
			out = append(out, fmt.Sprintf("%q=%q", k, x))
		}
	}
	sort.Strings(out)
	return out
}

type quietLogger struct{}

func (quietLogger) Printf(string, ...interface{}) {}
func (quietLogger) Debugf(string, ...interface{}) {}
