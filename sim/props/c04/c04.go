// Package c04: client and server agree — what the caller sets is what the
// handler gets, and the handler's status, headers and body reach the caller's
// response reader.  K1: the real client transport and the real server
// middleware, built from the same generated description, are joined by the
// in-process wire bridge; request bodies are streamed (multipart writer
// goroutine → pipe → bridge pulls → wire bytes → server-side stream delivered
// to the binder in chunks) and every map order is simulator-chosen.
//
// Honest note: the verdict rests mostly on seeded input sampling through a
// two-party system; the simulator's part is that the two real halves meet at
// all, under streamed bodies and permuted orders.
package c04

import (
	"bytes"
	"encoding/json"
	"fmt"
	"io"
	"net/http"
	"net/url"
	"path/filepath"
	"sort"
	"strconv"
	"strings"
	"testing"

	"github.com/go-openapi/errors"
	"github.com/go-openapi/runtime"
	"github.com/go-openapi/runtime/client"
	"github.com/go-openapi/runtime/middleware"
	"github.com/go-openapi/strfmt"
	"github.com/go-openapi/swag"

	"verif.local/sim/kernel"
	"verif.local/sim/simapi"
	"verif.local/sim/simhttp"
)

type prop struct{}

func init() { kernel.Register(prop{}) }

func (prop) ID() string     { return "C04" }
func (prop) Engine() string { return "K1" }
func (prop) Level() string  { return "exploration" }

func (prop) Budget(tier string) int {
	if tier == "thorough" {
		return 500000
	}
	return 7000
}

func (prop) Sweep(string) []kernel.Scenario { return nil }

func (prop) Describe() kernel.Description {
	return kernel.Description{
		Rule: "Dimensions added with the seed waves: path values containing the template's own literal tail; a fixed query parameter in the client's pattern named like a caller-set one; auth writers that inspect the whole request; handler answers through a hand-written responder, the stock middleware.Error responder, or a stream that fails part-way (the bridge turns the handler's panic into an aborted connection); GetHeader and GetHeaders compared; four server doors (APIHandler, Serve, ServeWithBuilder, APIHandlerSwaggerUI). " +
			"one run = one generated API description (1–4 operations; templates with 1–3 placeholders, static siblings, shared prefixes, base path with/without trailing slash; " +
			"consumes json / urlencoded / multipart, produces json / text / octet-stream) built into BOTH a server (untyped API + Context.APIHandler) and a client call " +
			"(client.Runtime.Submit with a params writer that sets exactly the generated values the way generated clients format them), joined by the wire bridge inside a synctest " +
			"bubble. Values: byte strings over an alphabet biased to the awkward ('/', '%', '+', ' ', '?', '#', ':', '*', '{', '}', ';', '=', '&', '\"', '\\\\', NUL, 0xFF, multi-byte runes), " +
			"int64 boundaries, booleans, repeated query/form values (multi and csv), JSON bodies, file contents of 0..3000 bytes with awkward names; with and without a client auth " +
			"writer (which makes the client buffer the body through GetBody). The handler answers with a generated status, header set and payload through a Responder or a plain value. " +
			"Oracle: handler-received map == supplied values by declared type (files by field, base name and content); status / headers / decoded body seen by the response reader == " +
			"what the handler returned. distinct = distinct history signature; non-trivial = ≥2 operations parked together (streamed multipart body) or an awkward value class was used.",
		Real: []string{"client.Runtime.Submit / buildHTTP (incl. multipart goroutine, GetBody buffering)", "net/http request/response wire code (Request.Write, ReadRequest, Response.Write, ReadResponse)",
			"middleware.Context.APIHandler: router (denco), untyped binder, validation, Respond / producers", "runtime consumers and producers on both sides"},
		Stubs: []string{"network: in-process wire bridge (no sockets, no http.Transport)", "upload sources (scripted streams)", "operation handler, params writer, response reader (scripted)"},
		Assumptions: []string{
			"path values are non-empty and not dot segments (exempt by the statement)",
			"header values are non-empty, contain no control characters and no leading/trailing whitespace (HTTP's own normalisation); header parameter names are declared in canonical case",
			"csv array items are non-empty, contain no separator and no surrounding whitespace (the collection format cannot carry them); multi arrays carry any strings",
			"an operation that declares form parameters always gets at least one (otherwise no Content-Type is sent)",
			"bodies of untyped operations are JSON objects (the reflective binder supports nothing else); numbers are compared as JSON literals",
			"no faults are injected here; the fault-injecting twin of this workload is C12",
		},
	}
}

var awkward = []string{"a", "b", "0", "/", "%", "+", " ", "?", "#", ":", "*", "{", "}", ";", "=", "&", "\"", "\\", "\x00", "\xff", "é", "日", "..", ".", "%2F", "%zz", "~", "@", ",", "|", "'", "<", ">", "[", "]", "^", "`", "$", "!", "(", ")"}

func genString(t *kernel.Tape, maxParts int, label string) (string, bool) {
	n := 1 + t.Choose(maxParts, label+"-n")
	var sb strings.Builder
	awk := false
	for i := 0; i < n; i++ {
		j := t.Choose(len(awkward), label)
		if j >= 3 {
			awk = true
		}
		sb.WriteString(awkward[j])
	}
	return sb.String(), awk
}

func headerSafe(s string) string {
	var sb strings.Builder
	for i := 0; i < len(s); i++ {
		c := s[i]
		if c < 0x20 || c == 0x7f {
			continue
		}
		sb.WriteByte(c)
	}
	out := strings.TrimSpace(sb.String())
	if out == "" {
		out = "h"
	}
	return out
}

var int64s = []int64{0, 1, -1, 42, 9223372036854775807, -9223372036854775808, 2147483648, -2147483649}

type pval struct {
	p      simapi.Param
	str    string
	i64    int64
	b      bool
	arr    []string
	file   []byte
	fname  string
	stream *kernel.Stream
	body   map[string]any
}

type opPlan struct {
	op             simapi.Op
	kind           string // none json urlenc multipart
	vals           []*pval
	prod           string
	status         int
	hdrs           map[string]string
	result         any
	useResponder   bool
	stockResponder bool // with useResponder: answer through middleware.Error(code, data, headers) instead of a hand-written responder
	failWith       int  // handler returns an error with this code (0 = success)
	respFailAt     int  // >=0: the handler answers with a stream that fails after that many bytes (octet-stream only); -1 none
	failMsg        string
}

func genOp(t *kernel.Tape, idx int, tmpl string, method string) *opPlan {
	pl := &opPlan{}
	pl.kind = []string{"none", "json", "urlenc", "multipart"}[t.Choose(4, "op-kind")]
	if method == "GET" {
		pl.kind = "none"
	}
	pl.op = simapi.Op{Method: method, Path: tmpl, ID: fmt.Sprintf("op%d", idx)}
	// path params from the template
	for _, seg := range strings.Split(tmpl, "/") {
		for {
			i := strings.Index(seg, "{")
			if i < 0 {
				break
			}
			j := strings.Index(seg[i:], "}")
			name := seg[i+1 : i+j]
			seg = seg[i+j+1:]
			tp := "string"
			if t.Bool(4, "path-int") {
				tp = "integer"
			}
			pl.op.Params = append(pl.op.Params, simapi.Param{Name: name, In: "path", Type: tp, Format: fmtOf(tp)})
		}
	}
	add := func(p simapi.Param) { pl.op.Params = append(pl.op.Params, p) }
	nq := t.Choose(4, "nquery")
	for i := 0; i < nq; i++ {
		switch t.Choose(5, "qtype") {
		case 0, 1:
			add(simapi.Param{Name: fmt.Sprintf("q%d", i), In: "query", Type: "string"})
		case 2:
			add(simapi.Param{Name: fmt.Sprintf("q%d", i), In: "query", Type: "integer", Format: "int64"})
		case 3:
			add(simapi.Param{Name: fmt.Sprintf("q%d", i), In: "query", Type: "array", ItemsType: "string", CollectionFormat: []string{"multi", "csv", "pipes"}[t.Choose(3, "cf")]})
		default:
			add(simapi.Param{Name: fmt.Sprintf("q%d", i), In: "query", Type: "boolean"})
		}
	}
	nh := t.Choose(3, "nheader")
	for i := 0; i < nh; i++ {
		tp := "string"
		if t.Bool(4, "hdr-int") {
			tp = "integer"
		}
		add(simapi.Param{Name: fmt.Sprintf("X-Param-%d", i), In: "header", Type: tp, Format: fmtOf(tp)})
	}
	switch pl.kind {
	case "json":
		pl.op.Consumes = []string{"application/json"}
		add(simapi.Param{Name: "payload", In: "body", Required: true})
	case "urlenc", "multipart":
		if pl.kind == "urlenc" {
			pl.op.Consumes = []string{"application/x-www-form-urlencoded"}
		} else {
			pl.op.Consumes = []string{"multipart/form-data"}
		}
		nf := 1 + t.Choose(3, "nform")
		for i := 0; i < nf; i++ {
			switch t.Choose(4, "ftype") {
			case 0, 1:
				add(simapi.Param{Name: fmt.Sprintf("f%d", i), In: "formData", Type: "string"})
			case 2:
				add(simapi.Param{Name: fmt.Sprintf("f%d", i), In: "formData", Type: "integer", Format: "int64"})
			default:
				add(simapi.Param{Name: fmt.Sprintf("f%d", i), In: "formData", Type: "array", ItemsType: "string", CollectionFormat: "multi"})
			}
		}
		if pl.kind == "multipart" {
			nfile := t.Choose(3, "nfile")
			for i := 0; i < nfile; i++ {
				add(simapi.Param{Name: fmt.Sprintf("up%d", i), In: "formData", Type: "file"})
			}
		}
	}
	pl.prod = []string{"application/json", "text/plain", "application/octet-stream"}[t.Choose(3, "produces")]
	pl.op.Produces = []string{pl.prod}
	pl.status = []int{200, 201, 202}[t.Choose(3, "success")]
	pl.op.Success = pl.status
	return pl
}

func fmtOf(tp string) string {
	if tp == "integer" {
		return "int64"
	}
	return ""
}

func (pl *opPlan) genValues(t *kernel.Tape, env *kernel.Env) (awk bool) {
	for i := range pl.op.Params {
		p := pl.op.Params[i]
		v := &pval{p: p}
		var a bool
		switch {
		case p.In == "body":
			v.body = map[string]any{}
			n := t.Choose(4, "body-keys")
			for k := 0; k < n; k++ {
				s, a2 := genString(t, 4, "body-val")
				a = a || a2
				v.body[fmt.Sprintf("k%d", k)] = strings.ToValidUTF8(s, "?")
			}
			v.body["n"] = int64s[t.Choose(len(int64s), "body-int")]
		case p.Type == "file":
			v.file = make([]byte, []int{0, 1, 511, 512, 513, 3000, 40}[t.Choose(7, "file-len")])
			for k := range v.file {
				v.file[k] = byte(k*7 + 13)
			}
			name, a2 := genString(t, 3, "file-name")
			a = a2
			name = strings.Map(func(r rune) rune {
				if r < 0x20 {
					return -1
				}
				return r
			}, strings.ToValidUTF8(name, "x"))
			if name == "" || strings.HasSuffix(name, "/") || strings.HasSuffix(name, ".") {
				name += "f.bin"
			}
			v.fname = name
			v.stream = kernel.NewStream(env, "up-"+p.Name, v.file)
			v.stream.ChunkMode = t.Choose(4, "file-chunk")
			v.stream.FixedChunk = 1 + t.Choose(700, "file-fixed")
			v.stream.ZeroReads = t.Choose(2, "file-zero")
			v.stream.TermWithData = t.Bool(2, "file-withdata")
		case p.Type == "integer":
			v.i64 = int64s[t.Choose(len(int64s), "int")]
		case p.Type == "boolean":
			v.b = t.Bool(2, "bool")
		case p.Type == "array":
			n := 1 + t.Choose(3, "arr-n")
			for k := 0; k < n; k++ {
				s, a2 := genString(t, 3, "arr-item")
				if p.CollectionFormat == "multi" && t.Bool(5, "empty-item") {
					s, a2 = "", true
				}
				if p.CollectionFormat != "multi" {
					sep := ","
					if p.CollectionFormat == "pipes" {
						sep = "|"
					}
					s = strings.TrimSpace(strings.ReplaceAll(s, sep, ""))
					if s == "" {
						s = "i"
					}
				}
				a = a || a2
				v.arr = append(v.arr, s)
			}
		default:
			s, a2 := genString(t, 4, "str")
			a = a2
			switch p.In {
			case "path":
				// a value that itself contains the literal text following its placeholder in the same segment
				if tail := literalTail(pl.op.Path, p.Name); tail != "" && t.Bool(3, "value-contains-the-literal-tail") {
					switch t.Choose(3, "tail-position") {
					case 0:
						s = s + tail + "x"
					case 1:
						s = s + tail
					default:
						s = "k" + tail + s
					}
					a = true
				}
				if s == "." || s == ".." {
					s += "x"
				}
			case "header":
				s = headerSafe(s)
			}
			v.str = s
		}
		awk = awk || a
		pl.vals = append(pl.vals, v)
	}
	// response side
	pl.useResponder = t.Bool(2, "responder")
	pl.stockResponder = t.Bool(3, "stock-error-responder")
	pl.hdrs = map[string]string{}
	if pl.useResponder {
		nh := t.Choose(3, "resp-nhdr")
		for i := 0; i < nh; i++ {
			s, _ := genString(t, 3, "resp-hdr")
			pl.hdrs[fmt.Sprintf("X-Resp-%d", i)] = headerSafe(s)
		}
		pl.status = []int{200, 201, 202, 404, 409, 500, 503}[t.Choose(7, "resp-status")]
	}
	if t.Bool(5, "handler-fails") {
		pl.failWith = []int{404, 409, 422, 500, 418}[t.Choose(5, "fail-code")]
		m, _ := genString(t, 3, "fail-msg")
		pl.failMsg = "failed: " + strings.ToValidUTF8(m, "?")
		pl.status = pl.failWith
		pl.hdrs = map[string]string{}
	}
	pl.respFailAt = -1
	if pl.prod == "application/octet-stream" && pl.failWith == 0 && t.Bool(5, "response-stream-fails") {
		// the handler hands back a stream (a file, a proxied body) that breaks off part-way
		pl.useResponder = false
		pl.hdrs = map[string]string{}
		pl.status = pl.op.Success
		pl.respFailAt = t.Choose(3000, "response-stream-fails-at")
	}
	s, a := genString(t, 6, "resp-body")
	awk = awk || a
	switch pl.prod {
	case "application/json":
		pl.result = map[string]any{"echo": strings.ToValidUTF8(s, "?"), "n": int64s[t.Choose(len(int64s), "resp-int")]}
	case "text/plain":
		pl.result = s
	default:
		pl.result = []byte(s)
	}
	return awk
}

// literalTail is the literal text between {name} and the end of its path segment in the template.
func literalTail(tmpl, name string) string {
	i := strings.Index(tmpl, "{"+name+"}")
	if i < 0 {
		return ""
	}
	rest := tmpl[i+len(name)+2:]
	if j := strings.IndexAny(rest, "/{"); j >= 0 {
		rest = rest[:j]
	}
	return rest
}

// WriteToRequest sets exactly the generated values, formatted the way generated clients do.
func (pl *opPlan) WriteToRequest(req runtime.ClientRequest, _ strfmt.Registry) error {
	for _, v := range pl.vals {
		p := v.p
		var texts []string
		switch {
		case p.In == "body":
			if err := req.SetBodyParam(v.body); err != nil {
				return err
			}
			continue
		case p.Type == "file":
			if err := req.SetFileParam(p.Name, &simhttp.UploadFile{Stream: v.stream, FileName: v.fname}); err != nil {
				return err
			}
			continue
		case p.Type == "integer":
			texts = []string{swag.FormatInt64(v.i64)}
		case p.Type == "boolean":
			texts = []string{swag.FormatBool(v.b)}
		case p.Type == "array":
			if p.CollectionFormat == "multi" {
				texts = append([]string(nil), v.arr...) // the request gets its own copy: what it does to it must not move the oracle's
			} else {
				texts = []string{swag.JoinByFormat(v.arr, p.CollectionFormat)[0]}
			}
		default:
			texts = []string{v.str}
		}
		var err error
		switch p.In {
		case "path":
			err = req.SetPathParam(p.Name, texts[0])
		case "query":
			err = req.SetQueryParam(p.Name, texts...)
		case "header":
			err = req.SetHeaderParam(p.Name, texts...)
		case "formData":
			err = req.SetFormParam(p.Name, texts...)
		}
		if err != nil {
			return err
		}
	}
	return nil
}

type respObs struct {
	ran      bool
	code     int
	hdrs     map[string]string
	decoded  any
	raw      []byte
	consumer string
	err      error
}

func (prop) Run(t *testing.T, tape *kernel.Tape, sc kernel.Scenario) *kernel.Result {
	env := kernel.NewEnv(tape)
	res := &kernel.Result{}
	kernel.DrawOrder(tape)
	defer kernel.UninstallOrder()

	// ---- description
	basePath := []string{"/", "/api", "/api/", "/api/v1"}[tape.Choose(4, "base")]
	templates := [][]string{
		{"/things/{id}", "/things/static", "/things/{id}/sub/{sub}"},
		{"/{a}/{b}", "/x/{b}", "/x/y"},
		{"/files/{name}.json", "/files", "/other/{name}"},
		{"/v/{a}/w/{b}/z/{c}", "/v/{a}/w", "/v"},
		{"/users/{id}:activate", "/users", "/u/{id}"},
	}[tape.Choose(5, "template-set")]
	nops := 1 + tape.Choose(3, "nops")
	var plans []*opPlan
	for i := 0; i < nops && i < len(templates); i++ {
		method := []string{"POST", "PUT", "GET", "PATCH", "DELETE"}[tape.Choose(5, "method")]
		plans = append(plans, genOp(tape, i, templates[i], method))
	}
	target := plans[tape.Choose(len(plans), "target")]
	api := &simapi.API{BasePath: basePath, Consumes: []string{"application/json"}, Produces: []string{"application/json"}}
	for _, pl := range plans {
		api.Ops = append(api.Ops, pl.op)
	}
	doc, err := api.Doc()
	if err != nil {
		res.Infra = "description does not load: " + err.Error()
		return res
	}
	awk := target.genValues(tape, env)
	if awk {
		env.Fault("awkward-value")
	}
	useAuth := tape.Bool(3, "client-auth")
	getBodyCalls := 1 + tape.Choose(3, "getbody-calls")
	inspect := tape.Bool(2, "auth-writer-inspects-the-request")
	staticLoser := ""
	if tape.Bool(4, "static-query-parameter-in-the-pattern") {
		for _, v := range target.vals {
			if v.p.In == "query" && v.p.Type != "array" {
				staticLoser = v.p.Name
				break
			}
		}
	}
	if useAuth {
		env.Fault("client-auth-getbody")
	}
	res.Summary = summary(basePath, target, useAuth)

	// ---- server
	world := simapi.NewWorld(1)
	u := simapi.NewUntyped(doc)
	u.RegisterConsumer("application/json", runtime.JSONConsumer())
	u.RegisterConsumer("application/x-www-form-urlencoded", runtime.DiscardConsumer)
	u.RegisterConsumer("multipart/form-data", runtime.DiscardConsumer)
	u.RegisterProducer("application/json", runtime.JSONProducer())
	u.RegisterProducer("text/plain", runtime.TextProducer())
	u.RegisterProducer("application/octet-stream", runtime.ByteStreamProducer())
	for _, pl := range plans {
		pl := pl
		u.RegisterOperation(pl.op.Method, pl.op.Path, &simapi.Handler{W: world, Op: pl.op.ID, Result: func(int, map[string]any) (any, error) {
			if pl.failWith != 0 {
				return nil, errors.New(int32(pl.failWith), "%s", pl.failMsg)
			}
			if pl.respFailAt >= 0 {
				data := bytes.Repeat([]byte("streamed response "), 200)
				st := kernel.NewStream(env, "response-payload", data[:pl.respFailAt])
				st.Term = &kernel.InjectedError{What: "the handler's response stream failed"}
				st.ChunkMode = kernel.ChunkRandom
				return kernel.ReaderOnly{S: st}, nil
			}
			if !pl.useResponder {
				return pl.result, nil
			}
			if pl.stockResponder {
				// the library's own generic responder (status, payload, headers)
				h := http.Header{}
				for k, v := range pl.hdrs {
					h.Set(k, v)
				}
				return middleware.Error(pl.status, pl.result, h), nil
			}
			return middleware.ResponderFunc(func(rw http.ResponseWriter, pr runtime.Producer) {
				for k, v := range pl.hdrs {
					rw.Header().Set(k, v)
				}
				rw.WriteHeader(pl.status)
				_ = pr.Produce(rw, pl.result)
			}), nil
		}})
	}
	ctx := middleware.NewContext(doc, u, nil)
	handler := ctx.APIHandler(nil)
	switch tape.Weighted("server-door", 3, 1, 1, 1) {
	case 1:
		handler = middleware.Serve(doc, u)
	case 2:
		handler = middleware.ServeWithBuilder(doc, u, middleware.PassthroughBuilder)
	case 3:
		handler = ctx.APIHandlerSwaggerUI(nil)
	}

	var (
		obs         respObs
		submitErr   error
		submitPanic string
		bridge      *simhttp.Bridge
		fileData    = map[string][]byte{}
		fileNames   = map[string]string{}
	)
	kernel.RunBubble(t, env, func(k *kernel.K1) {
		k.MaxSteps = 80000
		bridge = &simhttp.Bridge{Env: env, Name: "wire", Handler: handler,
			BodyChunkMode: tape.Choose(4, "srv-chunk"), BodyFixed: 1 + tape.Choose(600, "srv-fixed"),
			PullMode: tape.Choose(4, "pull"), PullFixed: 1 + tape.Choose(900, "pull-fixed")}
		rt := client.New("sim.local", basePath, []string{"http"})
		rt.Transport = bridge
		pattern := target.op.Path
		if staticLoser != "" {
			// a fixed query parameter written into the pattern, with the name of one the caller sets: the caller's value is the one that counts
			pattern += "?" + url.QueryEscape(staticLoser) + "=static-value-that-must-lose"
		}
		cop := &runtime.ClientOperation{ID: target.op.ID, Method: target.op.Method, PathPattern: pattern, Schemes: []string{"http"},
			ProducesMediaTypes: []string{target.prod}, Params: target,
			Reader: runtime.ClientResponseReaderFunc(func(r runtime.ClientResponse, c runtime.Consumer) (any, error) {
				obs.ran = true
				obs.code = r.Code()
				obs.hdrs = map[string]string{}
				for k, v := range target.hdrs {
					obs.hdrs[k] = r.GetHeader(k)
					// the list form must hand back the same single line, whatever punctuation it contains
					if all := r.GetHeaders(k); len(all) != 1 || all[0] != obs.hdrs[k] {
						if obs.hdrs[k] == v {
							obs.hdrs[k] = fmt.Sprintf("GetHeaders=%q", all)
						}
					}
				}
				raw, rerr := io.ReadAll(r.Body())
				obs.raw, obs.err = raw, rerr
				if target.failWith != 0 {
					// the server answers failures as application/json whatever the operation produces
					var m map[string]any
					obs.err = c.Consume(bytes.NewReader(raw), &m)
					obs.decoded = m
					return "read", nil
				}
				switch target.prod {
				case "application/json":
					var m map[string]any
					obs.err = c.Consume(bytes.NewReader(raw), &m)
					obs.decoded = m
				case "text/plain":
					var s string
					obs.err = c.Consume(bytes.NewReader(raw), &s)
					obs.decoded = s
				default:
					var b bytes.Buffer
					obs.err = c.Consume(bytes.NewReader(raw), &b)
					obs.decoded = b.Bytes()
				}
				return "read", nil
			})}
		if target.op.Consumes != nil {
			cop.ConsumesMediaTypes = target.op.Consumes
		}
		if useAuth {
			cop.AuthInfo = runtime.ClientAuthInfoWriterFunc(func(req runtime.ClientRequest, _ strfmt.Registry) error {
				if inspect {
					simhttp.Inspect(req)
				}
				for i := 0; i < getBodyCalls; i++ {
					_ = req.GetBody()
				}
				return nil
			})
		}
		k.Go("caller", func() {
			submitPanic = kernel.Catch(func() { _, submitErr = rt.Submit(cop) })
		})
		k.Run()
		if !k.Stuck && !k.Overrun {
			// read uploaded files out of the bound map while the bubble is alive (their streams are simulator objects)
			if b := world.Slots[0].Bound; b != nil {
				for _, v := range target.vals {
					if v.p.Type != "file" {
						continue
					}
					if f, ok := b[v.p.Name].(runtime.File); ok && f.Data != nil {
						data, _ := io.ReadAll(f.Data)
						fileData[v.p.Name] = data
						if f.Header != nil {
							fileNames[v.p.Name] = f.Header.Filename
						}
					}
				}
			}
			k.SettleAll()
		} else {
			res.Infra = fmt.Sprintf("run did not finish (stuck=%v overrun=%v)", k.Stuck, k.Overrun)
		}
	})
	if res.Infra != "" {
		res.FromEnv(env)
		return res
	}
	vc := valueClass(target)
	if submitPanic != "" {
		env.Violate("C04/panic", vc, "Submit (or the server behind the bridge) panicked: %s", submitPanic)
		res.FromEnv(env)
		return res
	}
	if target.respFailAt >= 0 && world.Slots[0].HandlerRan == 1 {
		// the response broke off while it was being produced: the caller must not be handed a complete-looking result
		if submitErr == nil && obs.err == nil {
			env.Violate("C04/response-differs", "producer-failed-midway", "the handler's response stream failed after %d bytes, yet the caller got status %d and %d body bytes without any error", target.respFailAt, obs.code, len(obs.raw))
		}
		res.FromEnv(env)
		return res
	}
	if submitErr != nil {
		env.Violate("C04/exchange-failed", vc, "no fault injected, the exchange failed: %v", submitErr)
		res.FromEnv(env)
		return res
	}
	slot := world.Slots[0]
	// ---- request direction
	if slot.HandlerRan != 1 || slot.HandlerOp != target.op.ID {
		why := "handler-not-run"
		if slot.HandlerRan > 0 {
			why = "wrong-operation"
		}
		env.Violate("C04/not-delivered", why+":"+vc, "operation %s (%s %s): handler ran %d times (op %q); client saw status %d body %q", target.op.ID, target.op.Method, target.op.Path, slot.HandlerRan, slot.HandlerOp, obs.code, trunc(obs.raw, 300))
		res.FromEnv(env)
		return res
	}
	for _, v := range target.vals {
		got, present := slot.Bound[v.p.Name]
		var want any
		switch {
		case v.p.In == "body":
			gj, _ := json.Marshal(got)
			wj, _ := json.Marshal(v.body)
			if string(gj) != string(wj) {
				env.Violate("C04/value-differs", "body", "body: handler got %s, caller supplied %s", gj, wj)
			}
			continue
		case v.p.Type == "file":
			data, ok := fileData[v.p.Name]
			if !ok {
				env.Violate("C04/value-differs", "file:missing", "file parameter %s did not reach the handler (bound: %T)", v.p.Name, got)
				continue
			}
			if !bytes.Equal(data, v.file) {
				env.Violate("C04/value-differs", "file:content", "file %s: handler read %d bytes, caller supplied %d", v.p.Name, len(data), len(v.file))
			}
			if fileNames[v.p.Name] != filepath.Base(v.fname) {
				env.Violate("C04/value-differs", "file:name", "file %s: handler saw name %q, caller supplied %q (base %q)", v.p.Name, fileNames[v.p.Name], v.fname, filepath.Base(v.fname))
			}
			continue
		case v.p.Type == "integer":
			want = v.i64
		case v.p.Type == "boolean":
			want = v.b
		case v.p.Type == "array":
			want = v.arr
		default:
			want = v.str
		}
		if !present || fmt.Sprintf("%#v", got) != fmt.Sprintf("%#v", want) {
			sig := fmt.Sprintf("%s:%s:%s", v.p.In, v.p.Type, oneClass(v))
			if v.p.In == "formData" && target.kind == "urlenc" && target.op.Method != "POST" && target.op.Method != "PUT" && target.op.Method != "PATCH" {
				sig = "urlencoded-form-on-method-without-form-parsing"
			}
			env.Violate("C04/value-differs", sig, "%s parameter %s: handler got %#v (present=%v), caller supplied %#v", v.p.In, v.p.Name, got, present, want)
		}
	}
	// ---- response direction
	if !obs.ran {
		env.Violate("C04/response-differs", "reader-not-run", "the response reader never ran")
	} else {
		if obs.code != target.status {
			env.Violate("C04/response-differs", "status", "reader saw status %d, handler answered %d", obs.code, target.status)
		}
		for k, v := range target.hdrs {
			if obs.hdrs[k] != v {
				env.Violate("C04/response-differs", "header", "header %s: reader saw %q, handler set %q", k, obs.hdrs[k], v)
			}
		}
		if target.failWith != 0 {
			m, _ := obs.decoded.(map[string]any)
			if obs.err != nil || fmt.Sprint(m["message"]) != target.failMsg {
				env.Violate("C04/response-differs", "error-body:produces="+target.prod, "handler failed with %d %q; the reader's consumer decoded %v from %q (err %v)", target.failWith, target.failMsg, obs.decoded, trunc(obs.raw, 200), obs.err)
			}
		} else if obs.err != nil {
			env.Violate("C04/response-differs", "decode:"+target.prod, "reader could not decode the %s body %q: %v", target.prod, trunc(obs.raw, 200), obs.err)
		} else {
			gj, _ := json.Marshal(obs.decoded)
			wj, _ := json.Marshal(target.result)
			if string(gj) != string(wj) {
				env.Violate("C04/response-differs", "body:"+target.prod, "reader decoded %s, handler returned %s", trunc(gj, 300), trunc(wj, 300))
			}
		}
	}
	res.FromEnv(env)
	return res
}

func trunc(b []byte, n int) string {
	if len(b) > n {
		return string(b[:n]) + "…"
	}
	return string(b)
}

func summary(base string, pl *opPlan, auth bool) string {
	var sb strings.Builder
	fmt.Fprintf(&sb, "base=%q %s %s kind=%s produces=%s status=%d responder=%v auth=%v;", base, pl.op.Method, pl.op.Path, pl.kind, pl.prod, pl.status, pl.useResponder, auth)
	for _, v := range pl.vals {
		switch {
		case v.p.In == "body":
			b, _ := json.Marshal(v.body)
			fmt.Fprintf(&sb, " body=%s", b)
		case v.p.Type == "file":
			fmt.Fprintf(&sb, " %s=file(%q,%d)", v.p.Name, v.fname, len(v.file))
		case v.p.Type == "integer":
			fmt.Fprintf(&sb, " %s(%s)=%d", v.p.Name, v.p.In, v.i64)
		case v.p.Type == "boolean":
			fmt.Fprintf(&sb, " %s(%s)=%v", v.p.Name, v.p.In, v.b)
		case v.p.Type == "array":
			fmt.Fprintf(&sb, " %s(%s,%s)=%q", v.p.Name, v.p.In, v.p.CollectionFormat, v.arr)
		default:
			fmt.Fprintf(&sb, " %s(%s)=%q", v.p.Name, v.p.In, v.str)
		}
	}
	return sb.String()
}

// oneClass names the awkward character class of one value.
func oneClass(v *pval) string {
	s := v.str
	if v.p.Type == "array" {
		s = strings.Join(v.arr, "")
	}
	return strClass(s)
}

func strClass(s string) string {
	var c []string
	add := func(x string) {
		for _, y := range c {
			if y == x {
				return
			}
		}
		c = append(c, x)
	}
	for _, ch := range []string{":", "/", "%", "+", " ", "?", "#", "*", "{", "}", ";", "=", "&", "\x00", "\xff", "..", "\"", "\\"} {
		if strings.Contains(s, ch) {
			add(strconv.QuoteToASCII(ch))
		}
	}
	sort.Strings(c)
	if len(c) == 0 {
		return "plain"
	}
	if len(c) > 3 {
		c = c[:3]
	}
	return strings.Join(c, "")
}

// valueClass: the awkward classes of the path values (routing is where whole exchanges fail).
func valueClass(pl *opPlan) string {
	for _, v := range pl.vals {
		if v.p.In == "path" && v.p.Type == "string" && v.str == ":" {
			return "path-value-is-colon"
		}
	}
	var parts []string
	for _, v := range pl.vals {
		if v.p.In == "path" && v.p.Type == "string" {
			parts = append(parts, strClass(v.str))
		}
	}
	if len(parts) == 0 {
		return "no-path-value"
	}
	sort.Strings(parts)
	return "path:" + strings.Join(parts, ",")
}
