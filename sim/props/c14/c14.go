// Package c14: credentials written by the client are exactly those the server
// checks.  K1 over the wire bridge: the real client auth writers
// (BasicAuth / APIKeyAuth / BearerToken / Compose / DefaultAuthentication) on
// one side, the real security.* authenticators on the other, joined by real
// net/http wire code; bearer tokens may travel in a streamed urlencoded or
// multipart form body.
//
// Honest note: mostly seeded input sampling through a two-party system; the
// stream dimension is the token-in-body case.
package c14

import (
	"bytes"
	"context"
	"encoding/base64"
	stderrors "errors"
	"fmt"
	"net/http"
	"net/url"
	"strings"
	"testing"

	"github.com/go-openapi/errors"
	"github.com/go-openapi/runtime"
	"github.com/go-openapi/runtime/client"
	"github.com/go-openapi/runtime/middleware"
	"github.com/go-openapi/runtime/security"
	"github.com/go-openapi/strfmt"

	"verif.local/sim/kernel"
	"verif.local/sim/simapi"
	"verif.local/sim/simhttp"
)

type prop struct{}

func init() { kernel.Register(prop{}) }

func (prop) ID() string     { return "C14" }
func (prop) Engine() string { return "K1" }
func (prop) Level() string  { return "exploration" }

func (prop) Budget(tier string) int {
	if tier == "thorough" {
		return 500000
	}
	return 20000
}

func (prop) Sweep(string) []kernel.Scenario { return nil }

func (prop) Describe() kernel.Description {
	return kernel.Description{
		Rule: "Dimensions added with the seed waves: a fixed query parameter named like the credential in the pattern or base path; debug mode; an earlier call through the same writer objects whose streamed payload fails; a failing member among composed writers; the server-side context already cancelled; API-key location in any letter case; Submit through the tracing wrappers; rotated default credentials, decoy parameters, a rival bearer scheme, a body cut while the only token arrives; four server doors. " +
			"one run = one security scheme under test (basic with realm / apiKey in header or query with a generated key name / oauth2 bearer; plain or context-aware constructor) " +
			"registered through the real security.* constructor around a recording callback, one secured operation with required scopes, and one client call through the wire bridge whose " +
			"credentials come from a tape-drawn composition of the real client writers (BasicAuth, APIKeyAuth header/query, BearerToken, Compose of 1–3 of them in any order), placed as " +
			"per-operation auth, as Runtime.DefaultAuthentication, as both, or as default with an Authorization header pre-set by the params writer; bearer tokens additionally in the " +
			"query and in a urlencoded or multipart form body (streamed in chunks), several placements at once, other schemes in the Authorization header. Oracle: callback arguments == " +
			"the effective transmitted user/password or token and the operation's required scopes; applies=false exactly when the request carries no such credential; the principal is the " +
			"callback's value and nothing else; bearer precedence header > query > form; default auth applied iff the operation has none and no Authorization header is pre-set; failed basic " +
			"auth carries the realm challenge. distinct = distinct history signature; non-trivial = token in a streamed body, ≥2 placements, or an awkward credential string.",
		Real: []string{"client.BasicAuth / APIKeyAuth / BearerToken / Compose, default-authentication wrapper in createHttpRequest", "security.BasicAuth*/APIKeyAuth*/BearerAuth* (+Ctx variants) and Http/Scoped adapters",
			"middleware.Context.APIHandler incl. RouteAuthenticator, Authorize, Respond (WWW-Authenticate)", "net/http wire code through the bridge"},
		Stubs: []string{"network: in-process wire bridge", "application callbacks (recording)", "operation handler, authorizer (recording)"},
		Assumptions: []string{
			"user names contain no ':'; tokens are non-empty; header-borne strings contain no control characters and no leading/trailing whitespace (HTTP trims it)",
			"urlencoded form bodies are sent with POST/PUT/PATCH only (net/http does not parse them otherwise; recorded under C04)",
		},
	}
}

type principal struct{ n int }

type cred struct {
	kind  string // basic apikey-header apikey-query bearer
	user  string
	pass  string
	name  string
	token string
}

func (c cred) String() string {
	switch c.kind {
	case "basic":
		return fmt.Sprintf("basic(%q,%q)", c.user, c.pass)
	case "bearer":
		return fmt.Sprintf("bearer(%q)", c.token)
	}
	return fmt.Sprintf("%s(%s=%q)", c.kind, c.name, c.token)
}

func (c cred) writer() runtime.ClientAuthInfoWriter {
	switch c.kind {
	case "basic":
		return client.BasicAuth(c.user, c.pass)
	case "apikey-header":
		return client.APIKeyAuth(c.name, "header", c.token)
	case "apikey-query":
		return client.APIKeyAuth(c.name, "query", c.token)
	}
	return client.BearerToken(c.token)
}

var credAlphabet = []string{"a", "b", "Z", "9", ":", " ", "é", "\xff", "%", "+", "/", "=", "&", "?", "#", "\"", "\\", "日", "-", "_", "~", ";", ","}

func genStr(t *kernel.Tape, label string, noColon, headerSafe, nonEmpty bool) (string, bool) {
	n := t.Choose(5, label+"-n")
	if nonEmpty && n == 0 {
		n = 1
	}
	var sb strings.Builder
	awk := false
	for i := 0; i < n; i++ {
		j := t.Choose(len(credAlphabet), label)
		s := credAlphabet[j]
		if noColon && s == ":" {
			s = "c"
		}
		if j >= 4 {
			awk = true
		}
		sb.WriteString(s)
	}
	out := sb.String()
	if headerSafe {
		out = strings.TrimSpace(out)
		if nonEmpty && out == "" {
			out = "t"
		}
	}
	return out, awk
}

// state of the outgoing request as the model tracks it
type wireState struct {
	authorization string
	apiHeader     map[string]string
	query         map[string]string
	form          map[string]string
}

func (w *wireState) apply(c cred) {
	switch c.kind {
	case "basic":
		w.authorization = "Basic " + base64.StdEncoding.EncodeToString([]byte(c.user+":"+c.pass))
	case "bearer":
		w.authorization = "Bearer " + c.token
	case "apikey-header":
		w.apiHeader[http.CanonicalHeaderKey(c.name)] = c.token
	case "apikey-query":
		w.query[c.name] = c.token
	}
}

type call struct {
	user, pass, token string
	scopes            []string
	ctxTagged         bool
}

type triple struct {
	applies   bool
	principal any
	err       error
}

type recAuth struct {
	inner   runtime.Authenticator
	results []triple
}

func (r *recAuth) Authenticate(p any) (bool, any, error) {
	a, pr, err := r.inner.Authenticate(p)
	r.results = append(r.results, triple{a, pr, err})
	return a, pr, err
}

type ctxKey struct{}

func (prop) Run(t *testing.T, tape *kernel.Tape, sc kernel.Scenario) *kernel.Result {
	env := kernel.NewEnv(tape)
	res := &kernel.Result{}
	kernel.DrawOrder(tape)
	defer kernel.UninstallOrder()

	scheme := []string{"basic", "apikey-header", "apikey-query", "bearer"}[tape.Choose(4, "scheme")]
	useCtx := tape.Bool(2, "ctx-variant")
	realm := []string{"", "API", "my realm", "r\"q"}[tape.Choose(4, "realm")]
	keyName := []string{"X-API-Key", "x-token", "api_key", "Key-With-Dash"}[tape.Choose(4, "key-name")]
	scopes := [][]string{nil, {"read"}, {"read", "write"}}[tape.Choose(3, "scopes")]
	callbackFails := tape.Bool(5, "callback-fails")
	awkAny := false

	// ---- client-side composition
	genCred := func(kind string) cred {
		c := cred{kind: kind, name: keyName}
		var a1, a2 bool
		switch kind {
		case "basic":
			c.user, a1 = genStr(tape, "user", true, false, false)
			c.pass, a2 = genStr(tape, "pass", false, false, false)
			if tape.Bool(4, "credentials-around-48-bytes") {
				// lengths on both sides of the sizes a fixed scratch buffer might have
				total := 44 + tape.Choose(9, "total-length")
				ul := tape.Choose(total+1, "user-length")
				c.user = strings.Repeat("u", ul)
				c.pass = strings.Repeat("p", total-ul)
				if len(c.pass) >= 2 && tape.Bool(2, "multi-byte-last-character") {
					c.pass = c.pass[:len(c.pass)-2] + "é"
				}
			}
		case "apikey-header", "bearer":
			c.token, a1 = genStr(tape, "token", false, true, true)
		default:
			c.token, a1 = genStr(tape, "token", false, false, true)
		}
		awkAny = awkAny || a1 || a2
		return c
	}
	var opCreds, defCreds []cred
	// the scheme under test is usually among the written credentials
	mk := func() []cred {
		var l []cred
		n := 1 + tape.Choose(3, "ncreds")
		for i := 0; i < n; i++ {
			k := scheme
			if i > 0 || tape.Bool(5, "other-scheme-first") {
				k = []string{"basic", "apikey-header", "apikey-query", "bearer"}[tape.Choose(4, "other-kind")]
			}
			l = append(l, genCred(k))
		}
		return l
	}
	mode := tape.Weighted("mode", 4, 2, 1, 1, 1) // 0 op auth, 1 default only, 2 both, 3 default + preset header, 4 none
	switch mode {
	case 0:
		opCreds = mk()
	case 1:
		defCreds = mk()
	case 2:
		opCreds, defCreds = mk(), mk()
	case 3:
		defCreds = mk()
	}
	// multi-step: the default credential was different during an earlier call on the same Runtime
	var earlierDefault []cred
	if len(defCreds) > 0 && tape.Bool(3, "rotated-default") {
		earlierDefault = mk()
		env.Fault("default-credential-rotated")
	}
	preset := ""
	if mode == 3 {
		pc := genCred([]string{"basic", "bearer"}[tape.Choose(2, "preset-kind")])
		st := &wireState{apiHeader: map[string]string{}, query: map[string]string{}}
		st.apply(pc)
		preset = st.authorization
	}
	decoy := tape.Bool(2, "decoy-query-parameter") // another parameter whose name merely ends with the key's name
	bodyKind := []string{"none", "urlenc", "multipart"}[tape.Choose(3, "body-kind")]
	if scheme == "bearer" && tape.Bool(2, "bearer-prefers-urlencoded-body") {
		bodyKind = "urlenc"
	}
	queryToken, formToken := "", ""
	if scheme == "bearer" || tape.Bool(4, "extra-placements") {
		if tape.Bool(2, "query-token") {
			queryToken, _ = genStr(tape, "qtoken", false, false, true)
		}
		if bodyKind != "none" && tape.Bool(2, "form-token") {
			formToken, _ = genStr(tape, "ftoken", false, false, true)
			env.Fault("token-in-streamed-body")
		}
	}
	// fault: the connection dies while a form body that carries the only bearer token is arriving
	bodyDies := 0
	if scheme == "bearer" && formToken != "" && bodyKind == "urlenc" && tape.Bool(2, "body-dies") {
		bodyDies = 1 + tape.Choose(999, "body-dies-at-permille")
		env.Fault("request-body-cut")
	}
	// ---- model of what is on the wire
	ws := &wireState{apiHeader: map[string]string{}, query: map[string]string{}, form: map[string]string{}}
	if preset != "" {
		ws.authorization = preset
	}
	if queryToken != "" {
		ws.query["access_token"] = queryToken
	}
	if formToken != "" {
		ws.form["access_token"] = formToken
	}
	switch {
	case len(opCreds) > 0:
		for _, c := range opCreds {
			ws.apply(c)
		}
	case len(defCreds) > 0 && preset == "":
		for _, c := range defCreds {
			ws.apply(c)
		}
	}
	// a fixed query parameter written into the path pattern or the base path yields to anything the caller's side sets
	staticIn, staticName := tape.Choose(4, "static-query-parameter"), ""
	if staticIn > 2 {
		staticIn = 0
	}
	if staticIn != 0 {
		staticName = keyName
		if scheme == "bearer" {
			staticName = "access_token"
		}
		env.Fault("static-query-parameter-named-like-the-credential")
		if _, set := ws.query[staticName]; !set {
			ws.query[staticName] = "anonymous-static"
		}
	}
	srvCtxDone := tape.Bool(5, "server-side-context-already-cancelled")
	if srvCtxDone {
		env.Fault("server-side-context-already-cancelled")
	}
	// one member of the composed credential writers cannot do its job (its token source is down)
	failingMember := -1
	if n := len(opCreds) + len(defCreds); n > 0 && preset == "" && tape.Bool(6, "a-composed-writer-fails") {
		l := opCreds
		if len(l) == 0 {
			l = defCreds
		}
		failingMember = tape.Choose(len(l)+1, "failing-member-position")
		env.Fault("a-composed-writer-fails")
	}
	via := tape.Weighted("submit-via", 3, 1, 1) // 0 Runtime.Submit 1 the OpenTelemetry wrapper 2 the OpenTracing wrapper
	opContext := tape.Bool(2, "operation-carries-a-context")
	if via != 0 {
		env.Fault("submitted-through-a-tracing-wrapper")
	}
	debugMode := tape.Bool(4, "debug-mode")
	earlierFailed := tape.Bool(3, "earlier-call-with-failing-streamed-body")
	earlierFailAt := tape.Choose(300, "earlier-fail-at")
	if debugMode {
		env.Fault("debug-mode")
	}
	if earlierFailed {
		env.Fault("earlier-call-failed-while-its-body-was-read")
	}
	placements := 0
	if ws.authorization != "" {
		placements++
	}
	placements += len(ws.apiHeader) + len(ws.query) + len(ws.form)
	if placements >= 2 {
		env.Fault("several-placements")
	}
	if awkAny {
		env.Fault("awkward-credential")
	}
	res.Summary = fmt.Sprintf("scheme=%s ctx=%v realm=%q key=%q scopes=%v mode=%d op=%v default=%v preset=%q body=%s queryToken=%q formToken=%q fails=%v",
		scheme, useCtx, realm, keyName, scopes, mode, opCreds, defCreds, preset, bodyKind, queryToken, formToken, callbackFails)

	// expected
	var want *call
	switch scheme {
	case "basic":
		if strings.HasPrefix(ws.authorization, "Basic ") {
			raw, err := base64.StdEncoding.DecodeString(strings.TrimPrefix(ws.authorization, "Basic "))
			if err == nil {
				u, p, _ := strings.Cut(string(raw), ":")
				want = &call{user: u, pass: p}
			}
		}
	case "apikey-header":
		if v := ws.apiHeader[http.CanonicalHeaderKey(keyName)]; v != "" {
			want = &call{token: v}
		}
	case "apikey-query":
		if v := ws.query[keyName]; v != "" {
			want = &call{token: v}
		}
	case "bearer":
		switch {
		case strings.HasPrefix(ws.authorization, "Bearer ") && strings.TrimPrefix(ws.authorization, "Bearer ") != "":
			want = &call{token: strings.TrimPrefix(ws.authorization, "Bearer "), scopes: scopes}
		case ws.query["access_token"] != "":
			want = &call{token: ws.query["access_token"], scopes: scopes}
		case ws.form["access_token"] != "":
			want = &call{token: ws.form["access_token"], scopes: scopes}
		}
	}

	// ---- server
	method := "POST"
	secDef := map[string]any{}
	switch scheme {
	case "basic":
		secDef = map[string]any{"type": "basic"}
	case "apikey-header":
		secDef = simapi.APIKeyDef(keyName)
	case "apikey-query":
		secDef = map[string]any{"type": "apiKey", "in": "query", "name": keyName}
	case "bearer":
		secDef = map[string]any{"type": "oauth2", "flow": "implicit", "authorizationUrl": "http://sim.local/auth", "scopes": map[string]any{"read": "r", "write": "w"}}
	}
	reqScopes := scopes
	if scheme != "bearer" {
		reqScopes = nil
	}
	// an earlier OR-alternative served by another bearer authenticator that turns every token down
	rival := scheme == "bearer" && tape.Bool(3, "rival-bearer-scheme-first")
	secList := []map[string][]string{{"S": reqScopes}}
	if rival {
		secList = []map[string][]string{{"S0": nil}, {"S": reqScopes}}
		env.Fault("rival-bearer-scheme-consulted-first")
	}
	op := simapi.Op{Method: method, Path: "/secured", ID: "secured", Security: &secList, Params: []simapi.Param{}}
	switch bodyKind {
	case "urlenc":
		op.Consumes = []string{"application/x-www-form-urlencoded"}
		op.Params = append(op.Params, simapi.Param{Name: "field", In: "formData", Type: "string"}, simapi.Param{Name: "access_token", In: "formData", Type: "string"})
	case "multipart":
		op.Consumes = []string{"multipart/form-data"}
		op.Params = append(op.Params, simapi.Param{Name: "field", In: "formData", Type: "string"}, simapi.Param{Name: "access_token", In: "formData", Type: "string"})
	}
	// same number of scopes, all different: a buffer reused between calls would show through
	var otherScopes []string
	for _, sc := range reqScopes {
		otherScopes = append(otherScopes, "other-"+sc)
	}
	op2 := simapi.Op{Method: "GET", Path: "/other", ID: "other", Security: &[]map[string][]string{{"S": otherScopes}}, Params: []simapi.Param{{Name: "X-Req", In: "header", Type: "string"}}}
	api := &simapi.API{BasePath: "/api", Consumes: []string{"application/json"}, Produces: []string{"application/json"},
		SecDefs: map[string]map[string]any{"S": secDef}, Ops: []simapi.Op{op, op2}}
	if rival {
		api.SecDefs["S0"] = map[string]any{"type": "oauth2", "flow": "implicit", "authorizationUrl": "http://sim.local/auth0", "scopes": map[string]any{}}
	}
	doc, err := api.Doc()
	if err != nil {
		res.Infra = "description does not load: " + err.Error()
		return res
	}
	var calls []call
	ctxMarker := "S"
	thePrincipal := &principal{n: 1 + tape.Choose(1000, "principal")}
	cbErr := errors.Unauthenticated("sim")
	answer := func() (any, error) {
		if callbackFails {
			return nil, cbErr
		}
		return thePrincipal, nil
	}
	var auth runtime.Authenticator
	tag := func(ctx context.Context) context.Context { return context.WithValue(ctx, ctxKey{}, "tagged") }
	switch scheme {
	case "basic":
		if useCtx {
			auth = security.BasicAuthRealmCtx(realm, func(ctx context.Context, u, p string) (context.Context, any, error) {
				calls = append(calls, call{user: u, pass: p, ctxTagged: true})
				pr, err := answer()
				return tag(ctx), pr, err
			})
		} else {
			auth = security.BasicAuthRealm(realm, func(u, p string) (any, error) {
				calls = append(calls, call{user: u, pass: p})
				return answer()
			})
		}
	case "apikey-header", "apikey-query":
		in := strings.TrimPrefix(scheme, "apikey-")
		// the constructors take the location in any letter case
		switch tape.Choose(4, "location-spelling") {
		case 1:
			in = strings.ToUpper(in)
		case 2:
			in = strings.ToUpper(in[:1]) + in[1:]
		}
		if useCtx {
			auth = security.APIKeyAuthCtx(keyName, in, func(ctx context.Context, tok string) (context.Context, any, error) {
				calls = append(calls, call{token: tok, ctxTagged: true})
				pr, err := answer()
				return tag(ctx), pr, err
			})
		} else {
			auth = security.APIKeyAuth(keyName, in, func(tok string) (any, error) {
				calls = append(calls, call{token: tok})
				return answer()
			})
		}
	case "bearer":
		if useCtx {
			auth = security.BearerAuthCtx("S", func(ctx context.Context, tok string, sc []string) (context.Context, any, error) {
				calls = append(calls, call{token: tok, scopes: sc, ctxTagged: true})
				ctxMarker = security.OAuth2SchemeNameCtx(ctx)
				pr, err := answer()
				return tag(ctx), pr, err
			})
		} else {
			auth = security.BearerAuth("S", func(tok string, sc []string) (any, error) {
				calls = append(calls, call{token: tok, scopes: sc})
				return answer()
			})
		}
	}
	rec := &recAuth{inner: auth}
	world := simapi.NewWorld(1)
	u := simapi.NewUntyped(doc)
	u.RegisterConsumer("application/json", runtime.JSONConsumer())
	u.RegisterConsumer("application/x-www-form-urlencoded", runtime.DiscardConsumer)
	u.RegisterConsumer("multipart/form-data", runtime.DiscardConsumer)
	u.RegisterProducer("application/json", runtime.JSONProducer())
	u.RegisterAuth("S", rec)
	if rival {
		u.RegisterAuth("S0", security.BearerAuth("S0", func(string, []string) (any, error) { return nil, errors.Unauthenticated("S0") }))
	}
	oauthMarker := "<authorizer not called>"
	u.RegisterAuthorizer(&simapi.Authorizer{W: world, Decide: func(_ int, r *http.Request, _ any) error {
		oauthMarker = security.OAuth2SchemeName(r)
		return nil
	}})
	u.RegisterOperation(method, "/secured", &simapi.Handler{W: world, Op: "secured"})
	u.RegisterOperation("GET", "/other", &simapi.Handler{W: world, Op: "other"})
	followUp := scheme == "bearer" && tape.Bool(2, "follow-up-call-other-scopes")
	ctx := middleware.NewContext(doc, u, nil)
	handler := ctx.APIHandler(nil)
	switch tape.Weighted("server-door", 3, 1, 1, 1) {
	case 1:
		handler = middleware.Serve(doc, u)
	case 2:
		handler = middleware.ServeWithBuilder(doc, u, middleware.PassthroughBuilder)
	case 3:
		handler = ctx.APIHandlerSwaggerUI(nil)
	}

	var (
		code        int
		challenge   string
		submitErr   error
		submitPanic string
	)
	kernel.RunBubble(t, env, func(k *kernel.K1) {
		bridge := &simhttp.Bridge{Env: env, Name: "wire", Handler: handler,
			BodyChunkMode: tape.Choose(4, "srv-chunk"), BodyFixed: 1 + tape.Choose(40, "srv-fixed"),
			PullMode: tape.Choose(4, "pull"), PullFixed: 1 + tape.Choose(60, "pull-fixed"), SrvBodyFailPermille: bodyDies, ServerCtxDone: srvCtxDone}
		basePath, pattern := "/api", "/secured"
		switch staticIn {
		case 1:
			pattern += "?" + url.QueryEscape(staticName) + "=anonymous-static"
		case 2:
			basePath += "?" + url.QueryEscape(staticName) + "=anonymous-static"
		}
		rt := client.New("sim.local", basePath, []string{"http"})
		rt.Transport = bridge
		if debugMode {
			rt.Debug = true
			rt.SetLogger(quietLogger{})
		}
		composeWith := func(l []cred, failAt int) runtime.ClientAuthInfoWriter {
			if len(l) == 1 && failAt < 0 {
				return l[0].writer()
			}
			var ws []runtime.ClientAuthInfoWriter
			for i, c := range l {
				if i == failAt {
					ws = append(ws, failingWriter{})
				}
				ws = append(ws, c.writer())
			}
			if failAt >= len(l) {
				ws = append(ws, failingWriter{})
			}
			return client.Compose(ws...)
		}
		compose := func(l []cred) runtime.ClientAuthInfoWriter { return composeWith(l, -1) }
		var warmup func()
		if len(earlierDefault) > 0 {
			rt.DefaultAuthentication = compose(earlierDefault)
			warmup = func() {
				_, _ = rt.Submit(&runtime.ClientOperation{ID: "secured", Method: method, PathPattern: "/secured", Schemes: []string{"http"},
					ProducesMediaTypes: []string{"application/json"}, ConsumesMediaTypes: []string{"application/json"},
					Params: runtime.ClientRequestWriterFunc(func(req runtime.ClientRequest, _ strfmt.Registry) error { return req.SetHeaderParam("X-Req", "0") }),
					Reader: runtime.ClientResponseReaderFunc(func(runtime.ClientResponse, runtime.Consumer) (any, error) { return nil, nil })})
			}
		}
		cop := &runtime.ClientOperation{ID: "secured", Method: method, PathPattern: pattern, Schemes: []string{"http"},
			ProducesMediaTypes: []string{"application/json"}, ConsumesMediaTypes: op.Consumes,
			Params: runtime.ClientRequestWriterFunc(func(req runtime.ClientRequest, _ strfmt.Registry) error {
				_ = req.SetHeaderParam("X-Req", "0")
				if preset != "" {
					_ = req.SetHeaderParam("Authorization", preset)
				}
				if queryToken != "" {
					_ = req.SetQueryParam("access_token", queryToken)
				}
				if decoy {
					_ = req.SetQueryParam("page_"+keyName, "decoy-"+keyName)
					_ = req.SetQueryParam("my_access_token", "decoy-bearer")
				}
				if bodyKind != "none" {
					_ = req.SetFormParam("field", "v")
					if formToken != "" {
						_ = req.SetFormParam("access_token", formToken)
					}
				}
				return nil
			}),
			Reader: runtime.ClientResponseReaderFunc(func(r runtime.ClientResponse, _ runtime.Consumer) (any, error) {
				code = r.Code()
				challenge = r.GetHeader("WWW-Authenticate")
				return nil, nil
			})}
		if len(opCreds) > 0 {
			cop.AuthInfo = composeWith(opCreds, failingMember)
		}
		k.Go("caller", func() {
			submitPanic = kernel.Catch(func() {
				if warmup != nil {
					warmup()
					// forget what the earlier call left behind on the server side
					calls, rec.results = nil, nil
					*world.Slots[0] = simapi.Obs{AuthScopes: map[string][]string{}}
				}
				if len(defCreds) > 0 {
					rt.DefaultAuthentication = compose(defCreds)
					if len(opCreds) == 0 {
						rt.DefaultAuthentication = composeWith(defCreds, failingMember)
					}
				}
				if earlierFailed {
					// an earlier call through the very same credential writers whose streamed payload broke off
					// while it was being read: whatever that call left behind must not reach this one
					data := bytes.Repeat([]byte("earlier payload "), 20)
					st := kernel.NewStream(env, "earlier-payload", data[:earlierFailAt])
					st.Term = &kernel.InjectedError{What: "payload source failed"}
					st.ChunkMode = kernel.ChunkRandom
					_, _ = rt.Submit(&runtime.ClientOperation{ID: "secured", Method: method, PathPattern: pattern, Schemes: []string{"http"},
						ProducesMediaTypes: []string{"application/json"}, ConsumesMediaTypes: []string{"application/octet-stream"}, AuthInfo: cop.AuthInfo,
						Params: runtime.ClientRequestWriterFunc(func(req runtime.ClientRequest, _ strfmt.Registry) error {
							_ = req.SetHeaderParam("X-Req", "0")
							return req.SetBodyParam(kernel.ReaderOnly{S: st})
						}),
						Reader: runtime.ClientResponseReaderFunc(func(runtime.ClientResponse, runtime.Consumer) (any, error) { return nil, nil })})
					calls, rec.results = nil, nil
					*world.Slots[0] = simapi.Obs{AuthScopes: map[string][]string{}}
				}
				submit := rt.Submit
				switch via {
				case 1:
					submit = rt.WithOpenTelemetry().Submit
				case 2:
					submit = rt.WithOpenTracing().Submit
				}
				if via != 0 && opContext {
					cop.Context = context.Background() // the tracing wrappers only get to work for operations that carry a context
				}
				_, submitErr = submit(cop)
				if followUp && want != nil {
					// a later call to another operation served by the same authenticator must not disturb what the first callback was given
					mainCalls, mainResults, mainSlot := len(calls), len(rec.results), *world.Slots[0]
					_, _ = rt.Submit(&runtime.ClientOperation{ID: "other", Method: "GET", PathPattern: "/other", Schemes: []string{"http"},
						ProducesMediaTypes: []string{"application/json"}, AuthInfo: client.BearerToken(want.token),
						Params: runtime.ClientRequestWriterFunc(func(req runtime.ClientRequest, _ strfmt.Registry) error { return req.SetHeaderParam("X-Req", "0") }),
						Reader: runtime.ClientResponseReaderFunc(func(runtime.ClientResponse, runtime.Consumer) (any, error) { return nil, nil })})
					calls, rec.results = calls[:mainCalls], rec.results[:mainResults]
					*world.Slots[0] = mainSlot
				}
			})
		})
		k.Run()
		if k.Stuck || k.Overrun {
			res.Infra = "run did not finish"
			return
		}
		k.SettleAll()
	})
	if res.Infra != "" {
		res.FromEnv(env)
		return res
	}
	sig := scheme
	if useCtx {
		sig += "-ctx"
	}
	if submitPanic != "" {
		env.Violate("C14/panic", sig, "exchange panicked: %s", submitPanic)
		res.FromEnv(env)
		return res
	}
	if failingMember >= 0 {
		// a credential could not be written: the call fails, nothing half-authenticated goes out
		if submitErr == nil || len(calls) > 0 || world.Slots[0].HandlerRan > 0 {
			env.Violate("C14/credential-differs", sig+":a-composed-writer-failed", "member %d of the composed credential writers failed, yet Submit returned err=%v, the server's callback was called %d times and the handler ran %d times", failingMember, submitErr, len(calls), world.Slots[0].HandlerRan)
		}
		res.FromEnv(env)
		return res
	}
	if submitErr != nil {
		env.Violate("C14/exchange-failed", sig, "exchange failed: %v", submitErr)
		res.FromEnv(env)
		return res
	}
	env.Log("server", "status=%d calls=%v results=%d challenge=%q", code, calls, len(rec.results), challenge)
	slot := world.Slots[0]
	// ---- oracle
	if bodyDies > 0 && !strings.HasPrefix(ws.authorization, "Bearer ") && ws.query["access_token"] == "" {
		// the only token travels in a body that never arrived completely: it may be unavailable, never wrong
		for _, c := range calls {
			if c.token != formToken {
				env.Violate("C14/credential-differs", sig+":form-token-from-a-truncated-body", "the request body was cut after %d‰; the callback was handed token %q, the transmitted token is %q", bodyDies, c.token, formToken)
			}
		}
		res.FromEnv(env)
		return res
	}
	if len(rec.results) != 1 {
		env.Violate("C14/authenticator-calls", sig, "authenticator consulted %d times for one request", len(rec.results))
		res.FromEnv(env)
		return res
	}
	got := rec.results[0]
	if want == nil {
		if got.applies || len(calls) > 0 {
			env.Violate("C14/applies-without-credential", sig+":"+placementClass(ws), "the request carries no %s credential, yet applies=%v and the callback was called with %v", scheme, got.applies, calls)
		}
		if code != 401 {
			env.Violate("C14/status", sig+":no-credential", "no credential: status %d, want 401", code)
		}
		if scheme == "basic" {
			checkChallenge(env, sig, challenge, realm)
		}
		res.FromEnv(env)
		return res
	}
	if !got.applies || len(calls) != 1 {
		env.Violate("C14/credential-not-recovered", sig+":"+placementClass(ws), "the request carries %s credential %+v but applies=%v and the callback ran %d times (status %d)", scheme, *want, got.applies, len(calls), code)
		res.FromEnv(env)
		return res
	}
	c := calls[0]
	if c.user != want.user || c.pass != want.pass || c.token != want.token {
		env.Violate("C14/credential-differs", sig+":"+placementClass(ws), "callback got user=%q pass=%q token=%q, transmitted user=%q pass=%q token=%q", c.user, c.pass, c.token, want.user, want.pass, want.token)
	}
	if scheme == "bearer" && fmt.Sprint(c.scopes) != fmt.Sprint(want.scopes) {
		env.Violate("C14/scopes-differ", sig, "callback got scopes %v, the operation requires %v", c.scopes, want.scopes)
	}
	if callbackFails {
		if got.err != cbErr || got.principal != nil {
			env.Violate("C14/principal-not-callbacks", sig+":error", "callback failed with %v, authenticator returned principal=%v err=%v", cbErr, got.principal, got.err)
		}
		if (code != 401 || slot.HandlerRan != 0) && bodyDies == 0 {
			env.Violate("C14/status", sig+":rejected", "callback rejected the credential: status %d, handler ran %d", code, slot.HandlerRan)
		}
		if scheme == "basic" {
			checkChallenge(env, sig, challenge, realm)
		}
	} else {
		if got.principal != any(thePrincipal) || got.err != nil {
			env.Violate("C14/principal-not-callbacks", sig, "authenticator returned principal=%v err=%v, the callback returned %v", got.principal, got.err, thePrincipal)
		}
		if !slot.AuthzPrincSet || slot.AuthzPrinc != any(thePrincipal) {
			env.Violate("C14/principal-not-callbacks", sig+":authorizer", "the authorizer saw principal %v, the callback returned %v", slot.AuthzPrinc, thePrincipal)
		}
		if code == 200 && slot.HandlerRan == 1 && bodyKind != "none" && bodyDies == 0 {
			// checking the credential must not cost the handler the form it came in with
			if got := fmt.Sprint(slot.Bound["field"]); got != "v" {
				env.Violate("C14/credential-differs", sig+":form-lost-to-the-credential-check", "credential accepted and the handler ran, but its form parameter field=%q (sent \"v\", body kind %s, placements %s)", got, bodyKind, placementClass(ws))
			}
		}
		if (code != 200 || slot.HandlerRan != 1) && bodyDies == 0 { // with the body cut, binding the form parameters legitimately fails
			env.Violate("C14/status", sig+":accepted", "credential accepted: status %d, handler ran %d", code, slot.HandlerRan)
		}
		if scheme == "bearer" && (oauthMarker != "S" || ctxMarker != "S") {
			env.Violate("C14/oauth2-scheme-marker", sig, "bearer credential accepted for scheme S, but the request carries the OAuth2 scheme marker %q (the callback's context named %q)", oauthMarker, ctxMarker)
		}
	}
	res.FromEnv(env)
	return res
}

func checkChallenge(env *kernel.Env, sig, challenge, realm string) {
	if realm == "" {
		realm = security.DefaultRealmName
	}
	want := fmt.Sprintf("Basic realm=%q", realm)
	if challenge != want {
		env.Violate("C14/basic-challenge", sig, "failed basic auth: WWW-Authenticate %q, want %q", challenge, want)
	}
}

func placementClass(ws *wireState) string {
	var p []string
	switch {
	case strings.HasPrefix(ws.authorization, "Basic "):
		p = append(p, "hdr-basic")
	case strings.HasPrefix(ws.authorization, "Bearer "):
		p = append(p, "hdr-bearer")
	}
	if len(ws.apiHeader) > 0 {
		p = append(p, "hdr-key")
	}
	if _, ok := ws.query["access_token"]; ok {
		p = append(p, "query-token")
	}
	if len(ws.query) > 0 {
		if _, ok := ws.query["access_token"]; !ok || len(ws.query) > 1 {
			p = append(p, "query-key")
		}
	}
	if len(ws.form) > 0 {
		p = append(p, "form-token")
	}
	if len(p) == 0 {
		return "nothing"
	}
	return strings.Join(p, "+")
}

var _ = stderrors.New

type quietLogger struct{}

func (quietLogger) Printf(string, ...interface{}) {}
func (quietLogger) Debugf(string, ...interface{}) {}

// failingWriter is a credential writer whose source of credentials is unavailable.
type failingWriter struct{}

func (failingWriter) AuthenticateRequest(runtime.ClientRequest, strfmt.Registry) error {
	return stderrors.New("credential source unavailable")
}
