// Package c13: responses reach the reader with the right consumer; concurrent
// calls on one Runtime are safe.
//
// Part A (sequential, input-driven and stated as such): consumer selection by
// response Content-Type spelling × registry, response passed through unchanged,
// per-operation client/context precedence.
//
// Part B (K2, the simulation target): N tasks call Submit on one fresh
// Runtime under a seeded, exclusive, race-visible schedule.
package c13

import (
	"bytes"
	"context"
	"fmt"
	"io"
	"mime"
	"net/http"
	"sort"
	"strconv"
	"strings"
	"syscall"
	"testing"
	"time"

	"github.com/go-openapi/runtime"
	"github.com/go-openapi/runtime/client"
	"github.com/go-openapi/strfmt"

	"verif.local/sim/kernel"
)

type prop struct{}

func init() { kernel.Register(prop{}) }

func (prop) ID() string     { return "C13" }
func (prop) Engine() string { return "K2+SEQ" }
func (prop) Level() string  { return "exploration" }

func (prop) Budget(tier string) int {
	if tier == "thorough" {
		return 2500000
	}
	return 120000
}

func (prop) Sweep(string) []kernel.Scenario { return nil }

func (prop) Describe() kernel.Description {
	return kernel.Description{
		Rule: "Dimensions added with the seed waves (part A): operation clients without a transport of their own; debug mode; New / NewWithClient with and without connection reuse; Submit through the OpenTelemetry and OpenTracing wrappers; the transport in effect losing its connection before any response; the response of an earlier failed call kept by its caller and read again later; the same operation value submitted to a second Runtime; multi-valued Set-Cookie. Part B: one scheme list shared by all callers. " +
			"two kinds of run, chosen by the tape. (B, the simulation target) N=2..8 tasks call Submit on ONE fresh client.Runtime (so the first calls race through " +
			"the lazy client creation) against a token-echoing simulated transport; the K2 scheduler runs exactly one task at a time, preempts at instrumented statement " +
			"boundaries chosen by the tape (PCT-style change points) and at transport calls, and hands control over with raw pipe system calls the race detector cannot see, " +
			"so every conflicting access pair not ordered by the program's own synchronisation is reported; each caller must get the response to its own request with the " +
			"consumer for its own content type — identical to a solo execution of the same call — and no race report with both stacks inside go-openapi/runtime may appear. " +
			"(A) one sequential Submit with a generated response (status, header set, Content-Type spelling: registered / unregistered / parameters / case / absent / malformed), " +
			"registry with or without */*, operation-level vs runtime-level client and context: the consumer handed to the reader must be registry[media type] else */* else an " +
			"error naming the type, and code/message/headers/body must arrive unchanged. distinct = distinct schedule signature (task order at every switch, change points, yield " +
			"count) or distinct (spelling, registry, outcome) tuple; non-trivial = a schedule with ≥1 preemption, or a non-plain Content-Type spelling.",
		Real:  []string{"client.Runtime.Submit / createHttpRequest / buildHTTP (instrumented with yield points)", "client.response adapter", "net/http.Client.Do", "sync.Once client creation"},
		Stubs: []string{"network: token-echoing RoundTripper", "params writer / response reader (scripted, per task)", "consumers (identity-tagged)"},
		Assumptions: []string{
			"K2 workloads contain no multipart bodies, stalls or timeouts (no fake clock under K2); those are C11/C12's",
			"a race whose both accesses the detector has already evicted from its per-location history, or that is masked by an incidental synchronisation inside the standard library, can be missed; false reports cannot arise because only the program's own happens-before edges are visible",
			"for a malformed Content-Type either an error or the catch-all consumer is accepted, never another consumer",
		},
	}
}

type tagConsumer struct{ tag string }

func (tagConsumer) Consume(io.Reader, any) error { return nil }

var registryTypes = []string{"application/json", "application/xml", "text/plain", "application/octet-stream", "application/vnd.sim+json", "text/csv"}

func mkRegistry(mask int, catchAll bool) map[string]runtime.Consumer {
	m := map[string]runtime.Consumer{}
	for i, t := range registryTypes {
		if mask&(1<<i) != 0 {
			m[t] = tagConsumer{t}
		}
	}
	if catchAll {
		m["*/*"] = tagConsumer{"*/*"}
	}
	return m
}

type spelling struct {
	header string // "" = absent
	media  string // the media type it denotes ("" = malformed, "absent" = header absent)
	class  string
}

func genSpelling(t *kernel.Tape) spelling {
	base := append(append([]string{}, registryTypes...), "application/unknown", "image/png")
	mt := base[t.Choose(len(base), "ct-base")]
	switch t.Choose(8, "ct-class") {
	case 0:
		return spelling{mt, mt, "plain"}
	case 1:
		return spelling{mt + "; charset=utf-8", mt, "param"}
	case 2:
		return spelling{strings.ToUpper(mt[:1]) + mt[1:], mt, "case"}
	case 3:
		return spelling{strings.ToUpper(mt) + ";Charset=\"UTF-8\"; q=1", mt, "case+param"}
	case 4:
		return spelling{"", "absent", "absent"}
	case 5:
		return spelling{[]string{"application/", "/json", ";;", "text/plain; charset", "a/b/c", "application/json; =x"}[t.Choose(6, "malformed")], "", "malformed"}
	case 6:
		return spelling{" " + mt + " ;  version=2 ", mt, "whitespace"}
	default:
		return spelling{mt + ";boundary=xyz;charset=iso-8859-1", mt, "params"}
	}
}

// ctxBody is a response body that, like net/http's, stops delivering once the request context has ended.
type ctxBody struct {
	ctx context.Context
	r   io.Reader
}

func (b *ctxBody) Read(p []byte) (int, error) {
	if err := b.ctx.Err(); err != nil {
		return 0, err
	}
	if len(p) > 7 {
		p = p[:7] // several reads per body
	}
	return b.r.Read(p)
}

func (b *ctxBody) Close() error { return nil }

type roundTripFunc func(*http.Request) (*http.Response, error)

func (f roundTripFunc) RoundTrip(r *http.Request) (*http.Response, error) { return f(r) }

type ctxKey string

// ---------------------------------------------------------------------------

func (prop) Run(t *testing.T, tape *kernel.Tape, sc kernel.Scenario) *kernel.Result {
	if tape.Choose(2, "part") == 0 {
		return runConcurrent(t, tape)
	}
	return runSelection(t, tape)
}

// ---- Part A ---------------------------------------------------------------

func runSelection(t *testing.T, tape *kernel.Tape) *kernel.Result {
	env := kernel.NewEnv(tape)
	res := &kernel.Result{}
	sp := genSpelling(tape)
	mask := tape.Choose(64, "registry-mask")
	catchAll := tape.Bool(2, "catch-all")
	defMT := registryTypes[tape.Choose(3, "default-mt")]
	status := []int{200, 201, 204, 400, 404, 418, 500, 503}[tape.Choose(8, "status")]
	body := tape.Bytes(tape.Choose(300, "blen"), []byte("ab\x00\xff\n{}"), "bbyte")
	emptyBody := tape.Bool(8, "empty-response-body")
	if emptyBody {
		body = nil // Content-Length: 0, http.NoBody: the Content-Type still decides which consumer the reader is given
	}
	hdrs := http.Header{}
	if sp.header != "" {
		hdrs.Set("Content-Type", sp.header)
		if sp.media != "" && tape.Bool(8, "second-content-type-line") {
			// a second, different Content-Type line (a proxy added its own): the one GetHeader reports is the one that counts
			hdrs.Add("Content-Type", registryTypes[tape.Choose(len(registryTypes), "second-ct")]+"; from=proxy")
			env.Fault("second-content-type-line")
		}
	}
	nh := tape.Choose(3, "nhdr")
	for i := 0; i < nh; i++ {
		name := []string{"X-Rate-Limit", "x-lower", "Etag", "X-Multi", "Set-Cookie", "Www-Authenticate"}[tape.Choose(6, "hname")]
		nv := 1 + tape.Choose(2, "hnv")
		for j := 0; j < nv; j++ {
			hdrs.Add(name, fmt.Sprintf("v%d-%d", i, j))
		}
	}
	opClient, opCtx, rtCtx := tape.Bool(3, "op-client"), tape.Bool(2, "op-ctx"), tape.Bool(2, "rt-ctx")
	rtCtxDone := rtCtx && tape.Bool(4, "rt-ctx-already-cancelled")
	// the reason phrase is the server's to choose: "404 No Such Pet" is a legal status line, and Message() is the line as sent
	statusLine := fmt.Sprintf("%d %s", status, http.StatusText(status))
	if tape.Bool(3, "custom-reason-phrase") {
		statusLine = fmt.Sprintf("%d %s", status, []string{"No Such Pet", "OK then", "Try Later (maintenance)", "custom"}[tape.Choose(4, "reason")])
		env.Fault("custom-reason-phrase")
	}
	res.Summary = fmt.Sprintf("A: content-type=%q (%s) registry=%06b catchall=%v default=%s status=%d opclient=%v opctx=%v rtctx=%v rtctxdone=%v", sp.header, sp.class, mask, catchAll, defMT, status, opClient, opCtx, rtCtx, rtCtxDone)
	if sp.class != "plain" {
		env.Fault("spelling-" + sp.class)
	}

	// the transport in effect for the measured call loses its connection before anything comes back
	cutKind := 0
	if tape.Bool(6, "connection-cut-before-the-response") {
		cutKind = 1 + tape.Choose(3, "cut-error")
		env.Fault("connection-cut-before-the-response")
	}
	contacted := map[string]int{}
	var seenCtx context.Context
	mkTransport := func(tag string) http.RoundTripper {
		return roundTripFunc(func(req *http.Request) (*http.Response, error) {
			seenCtx = req.Context()
			contacted[tag]++
			effective := "runtime"
			if opClient {
				effective = "operation"
			}
			if cutKind != 0 && tag == effective && contacted[tag] == 1 {
				switch cutKind {
				case 1:
					return nil, io.EOF
				case 2:
					return nil, fmt.Errorf("read tcp 192.0.2.1:443: %w", io.ErrUnexpectedEOF)
				default:
					return nil, fmt.Errorf("write tcp 192.0.2.1:443: %w", syscall.ECONNRESET)
				}
			}
			if rtCtxDone && opCtx {
				// give anything that watches the transport-wide context its chance to interfere
				time.Sleep(2 * time.Millisecond)
			}
			if err := req.Context().Err(); err != nil {
				return nil, err
			}
			h := hdrs.Clone()
			h.Set("X-Served-By", tag)
			return &http.Response{StatusCode: status, Status: statusLine, Header: h,
				Body: respBody(req.Context(), body, emptyBody), ContentLength: int64(len(body)), Request: req, Proto: "HTTP/1.1", ProtoMajor: 1, ProtoMinor: 1}, nil
		})
	}
	// how the Runtime came to be, and through which door the call goes in
	construction := tape.Choose(4, "runtime-construction") // 0 New 1 NewWithClient 2 New + connection reuse 3 NewWithClient + connection reuse
	via := tape.Weighted("submit-via", 3, 1, 1)            // 0 Runtime.Submit 1 the OpenTelemetry wrapper 2 the OpenTracing wrapper
	var rt *client.Runtime
	if construction == 1 || construction == 3 {
		rt = client.NewWithClient("sim.local", "/", []string{"http"}, &http.Client{Transport: mkTransport("runtime")})
	} else {
		rt = client.New("sim.local", "/", []string{"http"})
		rt.Transport = mkTransport("runtime")
	}
	if construction >= 2 {
		rt.EnableConnectionReuse()
	}
	if construction != 0 || via != 0 {
		env.Fault(fmt.Sprintf("construction-%d-via-%d", construction, via))
	}
	submit := rt.Submit
	switch via {
	case 1:
		submit = rt.WithOpenTelemetry().Submit
	case 2:
		submit = rt.WithOpenTracing().Submit
	}
	rt.Consumers = mkRegistry(mask, catchAll)
	rt.DefaultMediaType = defMT
	if rtCtx {
		rt.Context = context.WithValue(context.Background(), ctxKey("who"), "runtime")
		if rtCtxDone {
			c, cancel := context.WithCancel(rt.Context)
			cancel()
			rt.Context = c
			env.Fault("runtime-context-already-cancelled")
		}
	}
	var (
		gotCons   runtime.Consumer
		gotCode   int
		gotMsg    string
		gotBody   []byte
		gotHdr    = http.Header{}
		readerRan bool
	)
	op := &runtime.ClientOperation{ID: "get", Method: "GET", PathPattern: "/x", Schemes: []string{"http"},
		Params: runtime.ClientRequestWriterFunc(func(runtime.ClientRequest, strfmt.Registry) error { return nil }),
		Reader: runtime.ClientResponseReaderFunc(func(r runtime.ClientResponse, c runtime.Consumer) (any, error) {
			readerRan = true
			gotCons, gotCode, gotMsg = c, r.Code(), r.Message()
			gotBody, _ = io.ReadAll(r.Body())
			for name := range hdrs {
				gotHdr[name] = r.GetHeaders(name)
				if r.GetHeader(name) != hdrs.Get(name) {
					gotHdr[name] = append([]string{"GetHeader=" + r.GetHeader(name)}, gotHdr[name]...)
				}
			}
			gotHdr["X-Served-By"] = r.GetHeaders("X-Served-By")
			if never := r.GetHeaders("X-Never-Sent"); len(never) != 0 {
				gotHdr["X-Never-Sent"] = never
			}
			return "ok", nil
		})}
	if opClient {
		op.Client = &http.Client{Transport: mkTransport("operation")}
		if k := tape.Choose(3, "operation-client-kind"); k > 0 {
			// a per-operation client that only carries settings (none, or a timeout that never fires here) and leaves the
			// transport to net/http's default one, which is the simulator's for the length of this run
			env.Fault("operation-client-without-own-transport")
			op.Client = &http.Client{}
			if k == 2 {
				op.Client.Timeout = time.Hour
			}
			saved := http.DefaultTransport
			http.DefaultTransport = mkTransport("operation")
			defer func() { http.DefaultTransport = saved }()
		}
	}
	if tape.Bool(5, "debug-mode") {
		env.Fault("debug-mode")
		rt.Debug = true
		rt.SetLogger(quietLogger{})
	}
	if opCtx {
		op.Context = context.WithValue(context.Background(), ctxKey("who"), "operation")
	}
	if tape.Bool(4, "earlier-call-with-own-client") {
		// the very first call on this Runtime carries an operation-level client; later calls must still use the Runtime's
		env.Fault("earlier-call-with-operation-client")
		first := *op
		first.Client = &http.Client{Transport: mkTransport("earlier-operation")}
		first.Reader = runtime.ClientResponseReaderFunc(func(r runtime.ClientResponse, _ runtime.Consumer) (any, error) {
			_, _ = io.ReadAll(r.Body())
			return nil, nil
		})
		_, _ = rt.Submit(&first)
		seenCtx = nil
	}
	// an earlier call whose response object the caller holds on to (as runtime.APIError does for unexpected statuses)
	var kept runtime.ClientResponse
	keptCode, keptToken := 0, ""
	if cutKind == 0 && tape.Bool(4, "earlier-response-kept-by-the-caller") {
		env.Fault("earlier-response-kept-by-the-caller")
		savedStatus, savedHdrs := status, hdrs
		status, hdrs = 503, http.Header{"Content-Type": {"application/json"}, "X-Token": {"earlier-call"}}
		first := *op
		first.Reader = runtime.ClientResponseReaderFunc(func(r runtime.ClientResponse, _ runtime.Consumer) (any, error) {
			kept = r
			keptCode, keptToken = r.Code(), r.GetHeader("X-Token")
			return nil, runtime.NewAPIError("unexpected status", r, r.Code())
		})
		saveCons := rt.Consumers
		rt.Consumers = map[string]runtime.Consumer{"application/json": runtime.JSONConsumer()}
		_, _ = rt.Submit(&first)
		rt.Consumers = saveCons
		status, hdrs = savedStatus, savedHdrs
		seenCtx = nil
		for k := range contacted {
			delete(contacted, k)
		}
	}
	var err error
	if pm := kernel.Catch(func() { _, err = submit(op) }); pm != "" {
		env.Violate("C13/panic", sp.class, "Submit panicked: %s", pm)
		res.FromEnv(env)
		return res
	}
	env.Log("caller", "Submit err=%v reader=%v consumer=%v", err, readerRan, gotCons)
	if err == nil && readerRan && !opClient && cutKind == 0 && tape.Bool(4, "same-operation-value-on-a-second-runtime") {
		// fail-over / fan-out: the caller hands the very same operation value to another Runtime; nothing of the first may stick to it
		env.Fault("same-operation-value-on-a-second-runtime")
		rt2 := client.New("second.sim.local", "/", []string{"http"})
		rt2.Transport = mkTransport("second-runtime")
		rt2.Consumers = rt.Consumers
		rt2.DefaultMediaType = rt.DefaultMediaType
		first := fmt.Sprint(gotHdr["X-Served-By"])
		savedCtx := seenCtx
		_, err2 := rt2.Submit(op)
		seenCtx = savedCtx
		if err2 != nil {
			env.Violate("C13/precedence", "client:operation-value-reused", "the operation value went through one Runtime (served by %s); submitted to a second Runtime it failed: %v", first, err2)
		} else if fmt.Sprint(gotHdr["X-Served-By"]) != "[second-runtime]" {
			env.Violate("C13/precedence", "client:operation-value-reused", "the operation value went through one Runtime; submitted to a second Runtime it was served by %v", gotHdr["X-Served-By"])
		}
		gotHdr["X-Served-By"] = []string{strings.Trim(first, "[]")}
	}
	if kept != nil && (kept.Code() != keptCode || kept.GetHeader("X-Token") != keptToken) {
		env.Violate("C13/response-altered", "kept-response-of-an-earlier-call", "the response of an earlier call, still held by its caller, read %d / %q when it was received and reads %d / %q after a later call", keptCode, keptToken, kept.Code(), kept.GetHeader("X-Token"))
	}
	if cutKind != 0 && !(rtCtxDone && !opCtx) {
		// the call's own transport failed before any response: the failure is the caller's to see, and no other client stands in
		other := "operation"
		if opClient {
			other = "runtime"
		}
		switch {
		case err == nil || readerRan:
			env.Violate("C13/precedence", "client:failed-call-answered-through-another-client", "the transport in effect lost its connection before any response, yet Submit returned err=%v and the reader ran=%v (contacted %v)", err, readerRan, contacted)
		case contacted[other] > 0:
			env.Violate("C13/precedence", "client:other-client-contacted", "the transport in effect failed; the %s client was contacted %d times", other, contacted[other])
		}
		res.FromEnv(env)
		res.Sig = kernel.Mix(res.Sig, kernel.HashString(res.Summary))
		return res
	}
	if rtCtxDone {
		// a per-operation context takes precedence over the transport-wide one
		switch {
		case opCtx && err != nil && strings.Contains(err.Error(), "context canceled"):
			env.Violate("C13/precedence", "context:cancelled-runtime-context-aborts-operation-context", "the operation carries its own live context, yet the call failed because the transport-wide context is cancelled: %v", err)
		case !opCtx && err == nil:
			env.Violate("C13/precedence", "context:cancelled-runtime-context-ignored", "no operation context and the transport-wide context is cancelled, yet the call went through")
		}
		if !opCtx {
			res.FromEnv(env)
			res.Sig = kernel.Mix(res.Sig, kernel.HashString(res.Summary))
			return res
		}
	}
	// reference
	media := sp.media
	if media == "absent" {
		media = defMT
	}
	var want runtime.Consumer
	wantErr := false
	if media == "" {
		// malformed: error, or the catch-all; never another consumer
		if readerRan && gotCons != rt.Consumers["*/*"] {
			env.Violate("C13/wrong-consumer", "malformed", "malformed Content-Type %q was handed consumer %v", sp.header, gotCons)
		}
	} else {
		if c, ok := rt.Consumers[media]; ok {
			want = c
		} else if c, ok := rt.Consumers["*/*"]; ok {
			want = c
		} else {
			wantErr = true
		}
		cls := sp.class
		switch {
		case wantErr && (err == nil || readerRan):
			env.Violate("C13/wrong-consumer", cls+":no-consumer-registered", "no consumer for %q and no catch-all, yet the reader ran with %v (err=%v)", media, gotCons, err)
		case wantErr && !strings.Contains(strings.ToLower(err.Error()), media):
			env.Violate("C13/error-does-not-name-type", cls, "error %q does not name the content type %q", err, sp.header)
		case !wantErr && err != nil:
			env.Violate("C13/unexpected-error", cls, "Content-Type %q (media type %s) has a consumer, Submit failed: %v", sp.header, media, err)
		case !wantErr && gotCons != want:
			env.Violate("C13/wrong-consumer", cls, "Content-Type %q: reader got consumer %v, registry says %v", sp.header, gotCons, want)
		}
	}
	if readerRan {
		if gotCode != status || gotMsg != statusLine {
			env.Violate("C13/response-altered", "status", "reader saw %d %q, server sent %d %q", gotCode, gotMsg, status, statusLine)
		}
		if !bytes.Equal(gotBody, body) {
			env.Violate("C13/response-altered", "body", "reader saw %d body bytes, server sent %d", len(gotBody), len(body))
		}
		if never, seen := gotHdr["X-Never-Sent"]; seen {
			env.Violate("C13/response-altered", "header:absent-header-has-values", "a header the server never sent reads as %q", never)
		}
		for name, vals := range hdrs {
			if fmt.Sprint(gotHdr[name]) != fmt.Sprint(vals) {
				env.Violate("C13/response-altered", "header", "header %s: reader saw %v, server sent %v", name, gotHdr[name], vals)
				break
			}
		}
		wantServer := "runtime"
		if opClient {
			wantServer = "operation"
		}
		if fmt.Sprint(gotHdr["X-Served-By"]) != fmt.Sprint([]string{wantServer}) {
			env.Violate("C13/precedence", "client", "request went through the %v client, want %s", gotHdr["X-Served-By"], wantServer)
		}
	}
	if seenCtx != nil {
		who, _ := seenCtx.Value(ctxKey("who")).(string)
		wantWho := ""
		switch {
		case opCtx:
			wantWho = "operation"
		case rtCtx:
			wantWho = "runtime"
		}
		if who != wantWho {
			env.Violate("C13/precedence", "context", "request context derives from %q, want %q", who, wantWho)
		}
	}
	res.FromEnv(env)
	res.Sig = kernel.Mix(res.Sig, kernel.HashString(res.Summary))
	return res
}

// ---- Part B ---------------------------------------------------------------

type callPlan struct {
	token   string
	ctype   string // response content type
	media   string
	status  int
	payload int // 0 none, 1 json value, 2 urlencoded form, 3 text
	path    string
}

type callResult struct {
	ran      bool
	consumer string
	code     int
	body     string
	served   string
	err      string
	ret      string
	bodyErr  string // how reading the body ended, if not cleanly (with the request context's state at that moment)
}

func (r callResult) String() string {
	return fmt.Sprintf("{ran=%v consumer=%s code=%d body=%q bodyErr=%q served=%q err=%q ret=%q}", r.ran, r.consumer, r.code, r.body, r.bodyErr, r.served, r.err, r.ret)
}

type echoTransport struct {
	k     *kernel.K2
	plans []callPlan
}

func (e *echoTransport) RoundTrip(req *http.Request) (*http.Response, error) {
	if e.k != nil {
		e.k.Point()
	}
	idx, _ := strconv.Atoi(req.Header.Get("X-Idx"))
	p := e.plans[idx]
	var sent []byte
	if req.Body != nil {
		sent, _ = io.ReadAll(req.Body)
		req.Body.Close()
	}
	if e.k != nil {
		e.k.Point()
	}
	body := fmt.Sprintf("token=%s scheme=%s path=%s query=%s sent=%d:%s", req.Header.Get("X-Token"), req.URL.Scheme, req.URL.Path, req.URL.RawQuery, len(sent), sent)
	h := http.Header{}
	if p.ctype != "" {
		h.Set("Content-Type", p.ctype)
	}
	h.Set("X-Echo-Token", req.Header.Get("X-Token"))
	return &http.Response{StatusCode: p.status, Status: fmt.Sprintf("%d %s", p.status, http.StatusText(p.status)), Header: h,
		Body: &ctxBody{ctx: req.Context(), r: strings.NewReader(body)}, ContentLength: int64(len(body)), Request: req, Proto: "HTTP/1.1", ProtoMajor: 1, ProtoMinor: 1}, nil
}

// offeredSchemes is one list shared by every operation of a run (generated clients share such slices): https must win.
var offeredSchemes = []string{"http", "ws", "https"}

func mkOperation(i int, p callPlan, out *callResult) *runtime.ClientOperation {
	op := &runtime.ClientOperation{ID: "op" + p.token, Method: "POST", PathPattern: "/items/{id}", Schemes: offeredSchemes,
		ProducesMediaTypes: []string{"application/json", "text/plain"},
		Params: runtime.ClientRequestWriterFunc(func(req runtime.ClientRequest, _ strfmt.Registry) error {
			// no request timeout: the default one is 30 s of real time, and K2 has no simulated clock — on a machine that
			// stalls (memory pressure, a paused VM) it fired inside runs and emptied response bodies
			_ = req.SetTimeout(0)
			_ = req.SetHeaderParam("X-Idx", strconv.Itoa(i))
			_ = req.SetHeaderParam("X-Token", p.token)
			_ = req.SetPathParam("id", p.path)
			_ = req.SetQueryParam("t", p.token)
			switch p.payload {
			case 1:
				_ = req.SetBodyParam(map[string]string{"token": p.token})
			case 2:
				_ = req.SetFormParam("token", p.token)
			case 3:
				_ = req.SetBodyParam("text-" + p.token)
			}
			return nil
		}),
		Reader: runtime.ClientResponseReaderFunc(func(r runtime.ClientResponse, c runtime.Consumer) (any, error) {
			out.ran = true
			if tc, ok := c.(tagConsumer); ok {
				out.consumer = tc.tag
			} else {
				out.consumer = fmt.Sprintf("%T", c)
			}
			out.code = r.Code()
			b, rerr := io.ReadAll(r.Body())
			out.body = string(b)
			if rerr != nil {
				out.bodyErr = rerr.Error()
				if cb, ok := r.Body().(*ctxBody); ok {
					dl, has := cb.ctx.Deadline()
					out.bodyErr += fmt.Sprintf(" (context: err=%v deadline=%v in %v)", cb.ctx.Err(), has, time.Until(dl))
				}
			}
			out.served = r.GetHeader("X-Echo-Token")
			return "ret-" + p.token, nil
		})}
	switch p.payload {
	case 1:
		op.ConsumesMediaTypes = []string{"application/json"}
	case 2:
		op.ConsumesMediaTypes = []string{"application/x-www-form-urlencoded"}
	case 3:
		op.ConsumesMediaTypes = []string{"text/plain"}
	}
	return op
}

var raceLog *kernel.RaceLog
var raceLogInit bool

func runConcurrent(t *testing.T, tape *kernel.Tape) *kernel.Result {
	env := kernel.NewEnv(tape)
	res := &kernel.Result{}
	if !raceLogInit {
		raceLogInit = true
		raceLog = kernel.OpenRaceLog()
	}
	copy(offeredSchemes, []string{"http", "ws", "https"})
	n := 2 + tape.Choose(7, "ntasks")
	plans := make([]callPlan, n)
	for i := range plans {
		sp := genSpelling(tape)
		for sp.media == "" { // malformed types belong to part A
			sp = genSpelling(tape)
		}
		plans[i] = callPlan{token: fmt.Sprintf("T%d-%d", i, tape.Choose(1000, "token")), ctype: sp.header, media: sp.media,
			status: []int{200, 201, 404, 500}[tape.Choose(4, "status")], payload: tape.Choose(4, "payload"),
			path: []string{"a", "b c", "x/y", "é"}[tape.Choose(4, "path")] + strconv.Itoa(i)}
	}
	mask := 1 + tape.Choose(63, "registry-mask")
	catchAll := tape.Bool(2, "catch-all")
	mkRuntime := func(k *kernel.K2) *client.Runtime {
		rt := client.New("sim.local", "/api", nil)
		rt.Transport = &echoTransport{k: k, plans: plans}
		rt.Consumers = mkRegistry(mask, catchAll)
		return rt
	}
	call := func(rt *client.Runtime, i int, out *callResult) {
		ret, err := rt.Submit(mkOperation(i, plans[i], out))
		if err != nil {
			out.err = err.Error()
		}
		if s, ok := ret.(string); ok {
			out.ret = s
		}
	}
	// solo pass: every call alone on its own fresh Runtime
	solo := make([]callResult, n)
	est := 0
	for i := range plans {
		rt := mkRuntime(nil)
		est += kernel.CountYields(func() { call(rt, i, &solo[i]) })
	}
	raceLog.Drain()                                       // nothing of the solo pass is attributed to the schedule
	copy(offeredSchemes, []string{"http", "ws", "https"}) // as handed over by the application, whatever the solo pass did to it
	// concurrent pass on ONE fresh Runtime
	conc := make([]callResult, n)
	k := kernel.NewK2(tape)
	rt := mkRuntime(k)
	for i := range plans {
		i := i
		k.Add(fmt.Sprintf("caller%d", i), func() { call(rt, i, &conc[i]) })
	}
	k.Run(est, 4)
	env.Log("k2", "%s", k.TraceString())
	res.Summary = fmt.Sprintf("B: %d concurrent Submit calls, registry=%06b catchall=%v, %s", n, mask, catchAll, k.TraceString())
	names := make([]string, 0)
	for name, pm := range k.Panics() {
		names = append(names, name+": "+pm)
	}
	sort.Strings(names)
	for _, pm := range names {
		env.Violate("C13/panic", "concurrent", "task panicked: %s", pm)
	}
	for i := range plans {
		if conc[i] != solo[i] {
			what := "result"
			switch {
			case conc[i].served != solo[i].served || conc[i].body != solo[i].body:
				what = "response-of-another-request"
			case conc[i].consumer != solo[i].consumer:
				what = "consumer"
			case conc[i].err != solo[i].err:
				what = "error"
			}
			env.Violate("C13/cross-talk", what, "caller %d (token %s) got %v under the concurrent schedule, %v alone", i, plans[i].token, conc[i], solo[i])
			break
		}
		// solo sanity against the reference (own token, own consumer)
		if conc[i].ran && !strings.Contains(conc[i].body, " scheme=https ") {
			env.Violate("C13/cross-talk", "scheme", "caller %d was sent over %q although https is among the offered schemes %v", i, conc[i].body, offeredSchemes)
		}
		if solo[i].ran && (solo[i].served != plans[i].token || !strings.Contains(solo[i].body, "token="+plans[i].token+" ")) {
			env.Violate("C13/cross-talk", "solo-token", "caller %d alone saw %v for token %s", i, solo[i], plans[i].token)
		}
	}
	seenPair := map[string]bool{}
	for _, rep := range raceLog.Drain() {
		if ok, pair := rep.Admitted("github.com/go-openapi/runtime/"); ok {
			if seenPair[pair] {
				continue
			}
			seenPair[pair] = true
			env.Violate("C13/data-race", pair, "race detector report under a serialised schedule (only the program's own synchronisation is visible):\n%s", trim(rep.Text, 2500))
			res.NoMinimise = true
		} else {
			env.Probe("race-report-outside-code-under-test")
		}
	}
	if k.Switches > n {
		env.Fault("preemption")
	}
	res.FromEnv(env)
	res.Sig = kernel.Mix(res.Sig, k.Signature())
	return res
}

func trim(s string, n int) string {
	if len(s) > n {
		return s[:n] + "\n…"
	}
	return s
}

var _ = mime.ParseMediaType

type quietLogger struct{}

func (quietLogger) Printf(string, ...interface{}) {}
func (quietLogger) Debugf(string, ...interface{}) {}

func respBody(ctx context.Context, body []byte, empty bool) io.ReadCloser {
	if empty {
		return http.NoBody
	}
	return &ctxBody{ctx: ctx, r: bytes.NewReader(body)}
}
