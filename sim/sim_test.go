package sim

import (
	"encoding/json"
	"fmt"
	"os"
	"strconv"
	"testing"
	"time"

	"verif.local/sim/kernel"
	_ "verif.local/sim/props/c02"
	_ "verif.local/sim/props/c04"
	_ "verif.local/sim/props/c06"
	_ "verif.local/sim/props/c09"
	_ "verif.local/sim/props/c10"
	_ "verif.local/sim/props/c11"
	_ "verif.local/sim/props/c12"
	_ "verif.local/sim/props/c13"
	_ "verif.local/sim/props/c14"
	_ "verif.local/sim/props/c15"
	_ "verif.local/sim/props/c16"
	_ "verif.local/sim/props/c17"
)

func envInt(name string, def int64) int64 {
	if v := os.Getenv(name); v != "" {
		n, err := strconv.ParseInt(v, 10, 64)
		if err == nil {
			return n
		}
	}
	return def
}

// TestSim is the single entry point; VERIF_MODE selects worker / merge / replay.
func TestSim(t *testing.T) {
	mode := os.Getenv("VERIF_MODE")
	if mode == "" {
		t.Skip("VERIF_MODE not set")
	}
	p := kernel.Lookup(os.Getenv("VERIF_PROP"))
	if p == nil {
		fmt.Printf("INFRA: unknown property %q\n", os.Getenv("VERIF_PROP"))
		os.Exit(2)
	}
	tier := os.Getenv("VERIF_TIER")
	if tier == "" {
		tier = "quick"
	}
	seed := envInt("VERIF_SEED", 1)
	findings, err := kernel.LoadFindings(os.Getenv("VERIF_FINDINGS"))
	if err != nil {
		fmt.Printf("INFRA: %v\n", err)
		os.Exit(2)
	}
	switch mode {
	case "worker":
		kernel.RunWorker(t, kernel.WorkerCfg{
			Prop: p, Tier: tier, Seed: seed,
			Worker: int(envInt("VERIF_WORKER", 0)), Workers: int(envInt("VERIF_WORKERS", 1)),
			OutPath: os.Getenv("VERIF_OUT"), ReplayDir: os.Getenv("VERIF_REPLAYS"),
			Findings: findings, MaxWall: time.Duration(envInt("VERIF_MAXWALL_S", 3600)) * time.Second,
			Budget: int(envInt("VERIF_BUDGET", 0)),
		})
		// the testing package fails a test during which the race detector
		// reported anything; race reports are this harness's data, not its failure
		fmt.Println("PASS")
		os.Exit(0)
	case "triage":
		ok := kernel.Triage(kernel.WorkerCfg{Prop: p, Tier: tier, Seed: seed, Worker: int(envInt("VERIF_WORKER", 0)), Workers: int(envInt("VERIF_WORKERS", 1)),
			OutPath: os.Getenv("VERIF_OUT"), ReplayDir: os.Getenv("VERIF_REPLAYS"), Findings: findings}, os.Getenv("VERIF_WORKER_LOG"))
		if ok {
			fmt.Println("TRIAGE: the worker died inside the code under test; recorded as a violation")
			os.Exit(0)
		}
		fmt.Println("TRIAGE: not attributable to the code under test")
		os.Exit(2)
	case "crashcheck":
		// after a replay process died: is the crash the recorded one?
		logb, _ := os.ReadFile(os.Getenv("VERIF_WORKER_LOG"))
		what, fn := kernel.ParseCrash(string(logb), "github.com/go-openapi/runtime")
		if fn != "" {
			fmt.Printf("  violation: %s/fatal-crash [%s] %s\n", p.ID(), fn, what)
			fmt.Printf("VIOLATION property=%s replay=%s\n", p.ID(), os.Getenv("VERIF_REPLAY"))
			os.Exit(1)
		}
		os.Exit(2)
	case "merge":
		var build map[string]any
		_ = json.Unmarshal([]byte(os.Getenv("VERIF_BUILDINFO")), &build)
		wall, _ := strconv.ParseFloat(os.Getenv("VERIF_WALL_S"), 64)
		code := kernel.Merge(kernel.MergeCfg{Prop: p, Tier: tier, Seed: seed, OutDir: os.Getenv("VERIF_OUTDIR"),
			EvidencePath: os.Getenv("VERIF_EVIDENCE"), WallS: wall, Workers: int(envInt("VERIF_WORKERS", 1)), BuildInfo: build})
		os.Exit(code)
	case "replay":
		same, res, rep, err := kernel.RunReplay(t, p, os.Getenv("VERIF_REPLAY"))
		if err != nil {
			fmt.Printf("INFRA: %v\n", err)
			os.Exit(2)
		}
		fmt.Println("   case:", res.Summary)
		for _, h := range res.History {
			fmt.Println("  ", h)
		}
		for _, v := range res.Viol {
			fmt.Printf("  violation: %s [%s] %s\n", v.Class, v.Sig, v.Msg)
		}
		if same {
			if k := findings.Known(p.ID(), kernel.Violation{Class: rep.Class, Sig: rep.Sig}); k != nil {
				fmt.Printf("KNOWN-FINDING: property=%s %s|%s — %s\n", p.ID(), k.Class, k.Sig, k.What)
				os.Exit(0)
			}
			fmt.Printf("VIOLATION property=%s replay=%s\n", p.ID(), os.Getenv("VERIF_REPLAY"))
			os.Exit(1)
		}
		fmt.Printf("replay of %s: violation %s [%s] did not reproduce on this tree\n", os.Getenv("VERIF_REPLAY"), rep.Class, rep.Sig)
		os.Exit(0)
	case "digest":
		// determinism self-test: print one line per run with the history signature
		n := int(envInt("VERIF_BUDGET", 200))
		sweep := p.Sweep(tier)
		for i := 0; i < n; i++ {
			var sc kernel.Scenario
			if i < len(sweep) && os.Getenv("VERIF_DIGEST_SWEEP") != "" {
				sc = sweep[i]
			}
			tape := kernel.NewTape(kernel.RunSeed(seed, i))
			res := p.Run(t, tape, sc)
			nv := ""
			for _, v := range res.Viol {
				nv += " " + v.Key()
			}
			if os.Getenv("VERIF_DUMP") == strconv.Itoa(i) {
				fmt.Println("SUMMARY", res.Summary)
				for _, h := range res.History {
					fmt.Println("H", h)
				}
			}
			fmt.Printf("DIGEST run=%d sig=%016x tape=%d hist=%d simtime=%d viol=[%s] infra=%q\n", i, res.Sig, len(tape.Rec), len(res.History), res.SimTime, nv, res.Infra)
		}
	default:
		fmt.Printf("INFRA: unknown mode %q\n", mode)
		os.Exit(2)
	}
}
