// Package simapi generates Swagger 2.0 API descriptions and wires an
// untyped.API with scripted, identity-tagged collaborators (authenticators,
// authorizer, consumers, producers, operation handlers) that record what they
// saw into a per-request observation slot.
//
// Nothing here synchronises: slots are found by the request's index (header
// X-Req, body field "req", bound parameter X-Req), every request writes only to
// its own slot, so the collaborators add no happens-before edge between
// requests (needed by the K2 race oracle).
package simapi

import (
	"bytes"
	"encoding/json"
	"fmt"
	"io"
	"net/http"
	"sort"
	"strconv"
	"strings"

	"github.com/go-openapi/loads"
	"github.com/go-openapi/runtime"
	"github.com/go-openapi/runtime/middleware"
	"github.com/go-openapi/runtime/middleware/untyped"
	"github.com/go-openapi/runtime/security"
)

type Param struct {
	Name             string
	In               string // path query header formData body
	Type             string // string integer number boolean array file (ignored for body)
	Format           string
	ItemsType        string
	CollectionFormat string
	Required         bool
}

type Op struct {
	Method   string
	Path     string
	ID       string
	Consumes []string
	Produces []string
	Params   []Param
	// Security: nil = inherit the global requirement list.
	Security *[]map[string][]string
	Success  int
}

type API struct {
	BasePath string
	Consumes []string
	Produces []string
	// SecDefs: name -> swagger security scheme object
	SecDefs  map[string]map[string]any
	Security []map[string][]string
	Ops      []Op
}

func secList(l []map[string][]string) []any {
	out := make([]any, 0, len(l))
	for _, alt := range l {
		m := map[string]any{}
		for k, v := range alt {
			if v == nil {
				v = []string{}
			}
			m[k] = v
		}
		out = append(out, m)
	}
	return out
}

// JSON renders the description (deterministic: encoding/json sorts map keys).
func (a *API) JSON() []byte {
	paths := map[string]any{}
	for _, op := range a.Ops {
		item, _ := paths[op.Path].(map[string]any)
		if item == nil {
			item = map[string]any{}
			paths[op.Path] = item
		}
		params := []any{}
		for _, p := range op.Params {
			pm := map[string]any{"name": p.Name, "in": p.In, "required": p.Required || p.In == "path"}
			if p.In == "body" {
				pm["schema"] = map[string]any{"type": "object", "additionalProperties": true}
			} else {
				pm["type"] = p.Type
				if p.Format != "" {
					pm["format"] = p.Format
				}
				if p.Type == "array" {
					it := p.ItemsType
					if it == "" {
						it = "string"
					}
					pm["items"] = map[string]any{"type": it}
					if p.CollectionFormat != "" {
						pm["collectionFormat"] = p.CollectionFormat
					}
				}
			}
			params = append(params, pm)
		}
		code := op.Success
		if code == 0 {
			code = 200
		}
		o := map[string]any{
			"operationId": op.ID,
			"parameters":  params,
			"responses":   map[string]any{strconv.Itoa(code): map[string]any{"description": "ok"}},
		}
		if op.Consumes != nil {
			o["consumes"] = op.Consumes
		}
		if op.Produces != nil {
			o["produces"] = op.Produces
		}
		if op.Security != nil {
			o["security"] = secList(*op.Security)
		}
		item[strings.ToLower(op.Method)] = o
	}
	doc := map[string]any{
		"swagger": "2.0",
		"info":    map[string]any{"title": "sim", "version": "1"},
		"paths":   paths,
	}
	if a.BasePath != "" {
		doc["basePath"] = a.BasePath
	}
	if a.Consumes != nil {
		doc["consumes"] = a.Consumes
	}
	if a.Produces != nil {
		doc["produces"] = a.Produces
	}
	if len(a.SecDefs) > 0 {
		doc["securityDefinitions"] = a.SecDefs
	}
	if a.Security != nil {
		doc["security"] = secList(a.Security)
	}
	b, err := json.Marshal(doc)
	if err != nil {
		panic(err)
	}
	return b
}

func (a *API) Doc() (*loads.Document, error) {
	return loads.Analyzed(json.RawMessage(a.JSON()), "")
}

// APIKeyDef is a header api-key security definition.
func APIKeyDef(header string) map[string]any {
	return map[string]any{"type": "apiKey", "in": "header", "name": header}
}

// ---------------------------------------------------------------------------
// observations

// Obs is what the collaborators saw for one request.
type Obs struct {
	AuthCalls      []string // scheme names in consultation order
	AuthScopes     map[string][]string
	AuthCallScopes [][]string // scopes handed over at each consultation, parallel to AuthCalls
	AuthzCalls     int
	AuthzPrinc     any
	AuthzPrincSet  bool
	Audit          string   // set by a property's own middleware when what it was told twice about one request differs
	AuthzSaw       string   // whatever else the authorizer read from its request (filled by the property's Decide function)
	Consumers      []string // tags of consumers whose Consume ran
	Producers      []string
	HandlerRan     int
	HandlerOp      string
	Bound          map[string]any
}

// World holds the slots; index = request number.
type World struct {
	Slots []*Obs
}

func NewWorld(n int) *World {
	w := &World{Slots: make([]*Obs, n)}
	for i := range w.Slots {
		w.Slots[i] = &Obs{AuthScopes: map[string][]string{}}
	}
	return w
}

func (w *World) slot(i int) *Obs {
	if i < 0 || i >= len(w.Slots) {
		return &Obs{AuthScopes: map[string][]string{}}
	}
	return w.Slots[i]
}

func ReqIndex(r *http.Request) int {
	i, err := strconv.Atoi(r.Header.Get("X-Req"))
	if err != nil {
		return -1
	}
	return i
}

// AuthOutcome is the scripted answer of one scheme for one request.
type AuthOutcome struct {
	Applies   bool
	Principal any
	Err       error
}

// Auth is a scripted authenticator for one scheme.  Outcome decides per request.
type Auth struct {
	W       *World
	Scheme  string
	Outcome func(req int, r *http.Request, scopes []string) AuthOutcome
	OnCall  func() // scheduling point (K2) — may be nil
	// ScopedOnly: the scheme only understands the scoped form of the request (*security.ScopedAuthRequest), as the
	// library's own OAuth2 authenticators do
	ScopedOnly bool
}

func (a *Auth) Authenticate(params any) (bool, any, error) {
	var r *http.Request
	var scopes []string
	switch p := params.(type) {
	case *security.ScopedAuthRequest:
		r, scopes = p.Request, p.RequiredScopes
	case *http.Request:
		if a.ScopedOnly {
			return false, nil, nil // like security.ScopedAuthenticator: a bare request is not for this kind of scheme
		}
		r = p
	default:
		return false, nil, nil
	}
	if a.OnCall != nil {
		a.OnCall()
	}
	i := ReqIndex(r)
	s := a.W.slot(i)
	s.AuthCalls = append(s.AuthCalls, a.Scheme)
	s.AuthScopes[a.Scheme] = scopes
	s.AuthCallScopes = append(s.AuthCallScopes, scopes)
	o := a.Outcome(i, r, scopes)
	return o.Applies, o.Principal, o.Err
}

// Authorizer is a scripted runtime.Authorizer.
type Authorizer struct {
	W      *World
	Decide func(req int, r *http.Request, principal any) error
	OnCall func()
}

func (a *Authorizer) Authorize(r *http.Request, principal any) error {
	if a.OnCall != nil {
		a.OnCall()
	}
	i := ReqIndex(r)
	s := a.W.slot(i)
	s.AuthzCalls++
	s.AuthzPrinc, s.AuthzPrincSet = principal, true
	return a.Decide(i, r, principal)
}

// reqOfBody finds `"req":N` in a JSON-ish or `req=N` in a form/text body.
func reqOfBody(b []byte) int {
	for _, key := range []string{`"req":`, `req=`, `req:`} {
		if j := bytes.Index(b, []byte(key)); j >= 0 {
			rest := bytes.TrimLeft(b[j+len(key):], " \"")
			n := 0
			k := 0
			for k < len(rest) && rest[k] >= '0' && rest[k] <= '9' {
				n = n*10 + int(rest[k]-'0')
				k++
			}
			if k > 0 {
				return n
			}
		}
	}
	return -1
}

// Consumer is an identity-tagged consumer around a real one.
type Consumer struct {
	W      *World
	Tag    string
	Inner  runtime.Consumer
	OnCall func()
	// Single: when the world has exactly one slot, attribute everything to it.
}

func (c *Consumer) Consume(r io.Reader, target any) error {
	if c.OnCall != nil {
		c.OnCall()
	}
	b, err := io.ReadAll(r)
	idx := 0
	if len(c.W.Slots) != 1 {
		idx = reqOfBody(b)
	}
	s := c.W.slot(idx)
	s.Consumers = append(s.Consumers, c.Tag)
	if err != nil {
		return err
	}
	if c.Inner == nil {
		return nil
	}
	return c.Inner.Consume(bytes.NewReader(b), target)
}

// Producer is an identity-tagged producer around a real one.
type Producer struct {
	W     *World
	Tag   string
	Inner runtime.Producer
}

func (p *Producer) Produce(w io.Writer, data any) error {
	idx := 0
	if len(p.W.Slots) != 1 {
		idx = -1
		if m, ok := data.(map[string]any); ok {
			if v, ok := m["req"].(int); ok {
				idx = v
			}
		}
	}
	s := p.W.slot(idx)
	s.Producers = append(s.Producers, p.Tag)
	if p.Inner == nil {
		_, err := fmt.Fprintf(w, "%v", data)
		return err
	}
	return p.Inner.Produce(w, data)
}

// Handler is a scripted operation handler.
type Handler struct {
	W      *World
	Op     string
	Result func(req int, bound map[string]any) (any, error)
	OnCall func()
}

func (h *Handler) Handle(params any) (any, error) {
	if h.OnCall != nil {
		h.OnCall()
	}
	bound, _ := params.(map[string]any)
	idx := 0
	if len(h.W.Slots) != 1 {
		idx = -1
		if v, ok := bound["X-Req"]; ok {
			switch x := v.(type) {
			case string:
				if n, err := strconv.Atoi(x); err == nil {
					idx = n
				}
			case int64:
				idx = int(x)
			}
		}
	}
	s := h.W.slot(idx)
	s.HandlerRan++
	s.HandlerOp = h.Op
	s.Bound = bound
	if h.Result != nil {
		return h.Result(idx, bound)
	}
	return map[string]any{"req": idx, "op": h.Op}, nil
}

// NewUntyped creates an untyped API for the document with nothing registered;
// the default media types are JSON unless the caller changes them.
func NewUntyped(doc *loads.Document) *untyped.API {
	api := untyped.NewAPI(doc).WithoutJSONDefaults()
	api.DefaultConsumes = runtime.JSONMime
	api.DefaultProduces = runtime.JSONMime
	return api
}

// TagOf returns the identity tag of a scripted consumer ("" for nil, the Go
// type for anything else).
func TagOf(c runtime.Consumer) string {
	switch v := c.(type) {
	case nil:
		return ""
	case *Consumer:
		return v.Tag
	}
	return fmt.Sprintf("untagged:%T", c)
}

// RouteLooker is the part of middleware.Context NormaliseRoutes needs.
type RouteLooker interface {
	LookupRoute(*http.Request) (*middleware.MatchedRoute, bool)
}

// NormaliseRoutes removes the dependency-internal map-iteration order from a
// built router: for every probed route the Produces and Consumes lists and the
// consultation order of the schemes inside each security alternative are
// sorted and then permuted by order (a stateless function of the salt).  The
// slices share their backing arrays with the router's entries, so the change
// is seen by every later request.
func NormaliseRoutes(ctx RouteLooker, probes []*http.Request, order func(site int, keys []string)) {
	for i, p := range probes {
		route, ok := ctx.LookupRoute(p)
		if !ok {
			continue
		}
		fix := func(site int, l []string) {
			sort.Strings(l)
			if order != nil {
				order(site, l)
			}
		}
		fix(1000+i*10, route.Produces)
		fix(1001+i*10, route.Consumes)
		for j := range route.Authenticators {
			fix(1002+i*10+j, route.Authenticators[j].Schemes)
		}
	}
}
