// Package simhttp holds the simulated network and the scripted client-side
// collaborators: SimTransport (http.RoundTripper), upload files, response
// bodies.
package simhttp

import (
	"context"
	"fmt"
	"github.com/go-openapi/runtime"
	"io"
	"net/http"
	"sync"
	"time"

	"verif.local/sim/kernel"
)

// Plan is the scripted behaviour of the simulated server/transport for one exchange.
type Plan struct {
	FailBefore   bool // error before touching the request body
	FailDuringAt int  // ≥0: error once this many body bytes were received
	FailAfter    bool // error after the whole body was consumed
	NoResponse   int  // 0 respond; 1 stall until the context ends; 2 reset
	PullMode     int  // kernel.Chunk* for pulling the request body
	PullFixed    int

	Status        int
	Header        http.Header
	Body          []byte
	BodyTerm      error // nil = clean EOF
	BodyWithData  bool
	BodyChunkMode int
	BodyFixed     int
	BodyZeroReads int
	BodyStallAt   int // -1 none
	// BodyTransientAt: the body read that starts at this offset fails once (a timeout) and delivers nothing; the rest of
	// the body is there for whoever reads on (-1 none)
	BodyTransientAt int
	ContentLength   int64 // declared; -1 unknown
	BodyCloseErr    error
}

func DefaultPlan() *Plan {
	return &Plan{FailDuringAt: -1, BodyStallAt: -1, BodyTransientAt: -1, Status: 200, Header: http.Header{}, ContentLength: -1}
}

// Exchange records what one RoundTrip saw and did.
type Exchange struct {
	Method      string
	URL         string
	Header      http.Header
	ReqBody     []byte
	ReqBodyErr  error
	HadBody     bool
	Deadline    time.Time
	HasDeadline bool
	EnterAt     time.Duration
	ReturnAt    time.Duration
	Err         error
	CtxErrAtRet error
	Resp        *kernel.Stream
	ReqClosed   bool
	Plan        *Plan
}

// SimTransport is the simulated network: an http.RoundTripper whose every
// blocking point is a simulator operation honouring the request context.
type SimTransport struct {
	Env       *kernel.Env
	Name      string
	PlanFor   func(n int, req *http.Request) *Plan
	Exchanges []*Exchange
	InFlight  int
	Now       func() time.Duration
	mu        sync.Mutex
}

func (s *SimTransport) now() time.Duration {
	if s.Now != nil {
		return s.Now()
	}
	return 0
}

type pullRes struct {
	n   int
	err error
}

func (s *SimTransport) RoundTrip(req *http.Request) (*http.Response, error) {
	// several callers may enter at once: arrival order is not deterministic, so
	// the exchange is named after the caller's own id header when there is one
	s.mu.Lock()
	n := len(s.Exchanges)
	name := fmt.Sprintf("%s#%d", s.Name, n)
	if id := req.Header.Get("X-Up"); id != "" {
		name = fmt.Sprintf("%s#%s", s.Name, id)
	}
	plan := s.PlanFor(n, req)
	ex := &Exchange{Method: req.Method, URL: req.URL.String(), Header: req.Header.Clone(), Plan: plan, EnterAt: s.now()}
	s.Exchanges = append(s.Exchanges, ex)
	s.InFlight++
	s.mu.Unlock()
	ctx := req.Context()
	ex.Deadline, ex.HasDeadline = ctx.Deadline()
	closeBody := func() {
		if req.Body != nil && !ex.ReqClosed {
			ex.ReqClosed = true
			req.Body.Close()
		}
	}
	fail := func(err error) (*http.Response, error) {
		closeBody()
		ex.Err = err
		ex.CtxErrAtRet = ctx.Err()
		ex.ReturnAt = s.now()
		s.mu.Lock()
		s.InFlight--
		s.mu.Unlock()
		return nil, err
	}
	op := s.Env.Begin(name, "1-begin", ctx, nil)
	if op == nil {
		return fail(ctx.Err())
	}
	op.End("%s %s deadline=%v", req.Method, req.URL.Path, ex.HasDeadline)
	if plan.FailBefore {
		s.Env.Fault("transport-error-before-body")
		return fail(&kernel.InjectedError{What: "transport: connection refused"})
	}
	if req.Body != nil && req.Body != http.NoBody {
		ex.HadBody = true
		buf := make([]byte, 4096)
		for {
			chunk := len(buf)
			op := s.Env.Begin(name, "2-pull-body", ctx, func(t *kernel.Tape) {
				switch plan.PullMode {
				case kernel.ChunkOne:
					chunk = 1
				case kernel.ChunkFixed:
					if plan.PullFixed > 0 && plan.PullFixed < chunk {
						chunk = plan.PullFixed
					}
				case kernel.ChunkRandom:
					switch t.Choose(3, "pull") {
					case 1:
						chunk = 1 + t.Choose(16, "pull-small")
					case 2:
						chunk = 512
					}
				}
			})
			if op == nil {
				s.Env.Probe("context-ended-while-pull-parked")
				return fail(ctx.Err())
			}
			ch := make(chan pullRes, 1)
			go func() {
				n, err := req.Body.Read(buf[:chunk])
				ch <- pullRes{n, err}
			}()
			var r pullRes
			select {
			case r = <-ch:
			case <-ctx.Done():
				// like net/http: give up at once, the body is closed behind our back
				s.Env.Probe("context-ended-during-body-read")
				op.End("abandoned: context ended during body read")
				return fail(ctx.Err())
			}
			ex.ReqBody = append(ex.ReqBody, buf[:r.n]...)
			op.End("%d,%v (total %d)", r.n, r.err, len(ex.ReqBody))
			if r.err == io.EOF {
				break
			}
			if r.err != nil {
				ex.ReqBodyErr = r.err
				return fail(fmt.Errorf("transport: reading request body: %w", r.err))
			}
			if plan.FailDuringAt >= 0 && len(ex.ReqBody) >= plan.FailDuringAt {
				s.Env.Fault("transport-error-during-body")
				return fail(&kernel.InjectedError{What: "transport: connection reset while sending"})
			}
		}
	}
	if plan.FailAfter {
		s.Env.Fault("transport-error-after-body")
		return fail(&kernel.InjectedError{What: "transport: connection reset after request"})
	}
	switch plan.NoResponse {
	case 1:
		op := s.Env.Begin(name, "3-await-response", ctx, nil)
		if op == nil {
			return fail(ctx.Err())
		}
		s.Env.Fault("response-stall")
		op.End("server never answers")
		<-ctx.Done()
		return fail(ctx.Err())
	case 2:
		op := s.Env.Begin(name, "3-await-response", ctx, nil)
		if op == nil {
			return fail(ctx.Err())
		}
		s.Env.Fault("response-reset")
		op.End("connection reset before any response")
		return fail(&kernel.InjectedError{What: "transport: connection reset by peer"})
	}
	op = s.Env.Begin(name, "3-await-response", ctx, nil)
	if op == nil {
		return fail(ctx.Err())
	}
	closeBody()
	body := kernel.NewStream(s.Env, name+".respbody", plan.Body)
	body.Term = plan.BodyTerm
	body.TermWithData = plan.BodyWithData
	body.ChunkMode = plan.BodyChunkMode
	body.FixedChunk = plan.BodyFixed
	body.ZeroReads = plan.BodyZeroReads
	body.StallAt = plan.BodyStallAt
	body.TransientErrAt = plan.BodyTransientAt
	body.Ctx = ctx
	body.Cancellable = true
	body.CloseErr = plan.BodyCloseErr
	body.Tag = "respbody"
	ex.Resp = body
	hdr := plan.Header.Clone()
	if hdr == nil {
		hdr = http.Header{}
	}
	resp := &http.Response{
		Status:        fmt.Sprintf("%d %s", plan.Status, http.StatusText(plan.Status)),
		StatusCode:    plan.Status,
		Proto:         "HTTP/1.1",
		ProtoMajor:    1,
		ProtoMinor:    1,
		Header:        hdr,
		Body:          body,
		ContentLength: plan.ContentLength,
		Request:       req,
	}
	op.End("%d len=%d", plan.Status, len(plan.Body))
	ex.ReturnAt = s.now()
	ex.CtxErrAtRet = ctx.Err()
	s.mu.Lock()
	s.InFlight--
	s.mu.Unlock()
	return resp, nil
}

// UploadFile is a scripted runtime.NamedReadCloser.
type UploadFile struct {
	*kernel.Stream
	FileName string
}

func (u *UploadFile) Name() string { return u.FileName }

// SeekableUpload is an upload source that is also an io.Seeker (like *os.File)
// and may be handed over positioned past its start.
type SeekableUpload struct{ *UploadFile }

func (u *SeekableUpload) Seek(offset int64, whence int) (int64, error) {
	var abs int64
	switch whence {
	case io.SeekStart:
		abs = offset
	case io.SeekCurrent:
		abs = int64(u.Pos) + offset
	case io.SeekEnd:
		abs = int64(len(u.Data)) + offset
	}
	if abs < 0 || abs > int64(len(u.Data)) {
		return 0, fmt.Errorf("seek out of range")
	}
	u.Pos = int(abs)
	u.TermDelivered = false
	u.Env.Probe("upload-source-seeked")
	return abs, nil
}

// UploadFileCT additionally declares its content type.
type UploadFileCT struct {
	*UploadFile
	CT string
}

func (u *UploadFileCT) ContentType() string { return u.CT }

var _ context.Context = context.Background()

// Inspect does what a signing credential writer does before it writes anything: it looks at everything the request
// offers.  Looking must not change what is sent; the copies that getters hand out are scribbled on to show it.
func Inspect(req runtime.ClientRequest) {
	_ = req.GetMethod()
	_ = req.GetPath()
	_ = req.GetHeaderParams() // the live header map by design: left alone
	_ = req.GetBodyParam()
	_ = req.GetFileParam()
	for _, vs := range req.GetQueryParams() {
		for i := range vs {
			vs[i] = "scribbled-by-the-auth-writer"
		}
	}
}
