package simhttp

import (
	"bufio"
	"bytes"
	"context"
	"fmt"
	"io"
	"net/http"
	"net/http/httptest"

	"verif.local/sim/kernel"
)

// Bridge joins the real client transport to the real server middleware without
// sockets: the outgoing request is serialised with http.Request.Write (real
// net/http wire code: header canonicalisation, Content-Length vs chunked),
// parsed back with http.ReadRequest, served by Handler on a recorder, and the
// recorded response travels back through http.Response.Write / http.ReadResponse.
// The request body is pulled in tape-chosen chunks (each pull is a scheduling
// point: the multipart writer goroutine progresses in between) and delivered to
// the server-side code through a scripted stream in tape-chosen chunks.
type Bridge struct {
	Env     *kernel.Env
	Name    string
	Handler http.Handler
	// Chunking of the server-side body stream.
	BodyChunkMode int
	BodyFixed     int
	PullMode      int
	PullFixed     int
	// SrvBodyFailPermille: if >0, the server-side body stream fails (connection lost) after that fraction of the body
	SrvBodyFailPermille int
	// ServerRequests are the requests as parsed on the server side.
	ServerRequests []*http.Request
	Wire           [][]byte
	Exchanges      int
	// ServerCtxDone: the server-side request context is already cancelled when the handler is called
	ServerCtxDone bool
	// HandlerPanics: panics that came out of the handler (each aborted its exchange)
	HandlerPanics []string
}

// HandlerPanicError is what the client side gets when the server's handler panicked.
type HandlerPanicError struct{ Panic string }

func (e *HandlerPanicError) Error() string {
	return "bridge: the server aborted the connection (handler panicked: " + e.Panic + ")"
}

type pullReader struct {
	b    *Bridge
	name string
	rc   io.ReadCloser
	req  *http.Request
}

func (p *pullReader) Read(buf []byte) (int, error) {
	chunk := len(buf)
	op := p.b.Env.Begin(p.name, "pull-body", p.req.Context(), func(t *kernel.Tape) {
		switch p.b.PullMode {
		case kernel.ChunkOne:
			chunk = 1
		case kernel.ChunkFixed:
			if p.b.PullFixed > 0 && p.b.PullFixed < chunk {
				chunk = p.b.PullFixed
			}
		case kernel.ChunkRandom:
			switch t.Choose(3, "pull") {
			case 1:
				chunk = 1 + t.Choose(16, "pull-small")
			case 2:
				if chunk > 512 {
					chunk = 512
				}
			}
		}
	})
	if op == nil {
		return 0, p.req.Context().Err()
	}
	if chunk > len(buf) {
		chunk = len(buf)
	}
	n, err := p.rc.Read(buf[:chunk])
	op.End("%d,%v", n, err)
	return n, err
}

func (p *pullReader) Close() error { return p.rc.Close() }

func (b *Bridge) RoundTrip(req *http.Request) (*http.Response, error) {
	name := fmt.Sprintf("%s#%d", b.Name, b.Exchanges)
	b.Exchanges++
	out := req.Clone(req.Context())
	if req.Body != nil && req.Body != http.NoBody {
		out.Body = &pullReader{b: b, name: name, rc: req.Body, req: req}
	}
	var wire bytes.Buffer
	if err := out.Write(&wire); err != nil {
		if req.Body != nil {
			req.Body.Close()
		}
		return nil, fmt.Errorf("bridge: writing request: %w", err)
	}
	if req.Body != nil {
		req.Body.Close()
	}
	b.Wire = append(b.Wire, append([]byte(nil), wire.Bytes()...))
	sreq, err := http.ReadRequest(bufio.NewReader(bytes.NewReader(wire.Bytes())))
	if err != nil {
		return nil, fmt.Errorf("bridge: server cannot parse the request: %w", err)
	}
	sreq = sreq.WithContext(req.Context())
	if b.ServerCtxDone {
		// the client went away right after sending: the server-side request context is already cancelled when serving starts
		cctx, cancel := context.WithCancel(req.Context())
		cancel()
		sreq = sreq.WithContext(cctx)
	}
	body, err := io.ReadAll(sreq.Body)
	if err != nil {
		return nil, fmt.Errorf("bridge: server cannot read the request body framing: %w", err)
	}
	st := kernel.NewStream(b.Env, name+".srvbody", body)
	st.ChunkMode = b.BodyChunkMode
	st.FixedChunk = b.BodyFixed
	st.Tag = "srvbody"
	if b.SrvBodyFailPermille > 0 && len(body) > 0 {
		k := len(body) * b.SrvBodyFailPermille / 1000
		st.Data = body[:k]
		st.Term = &kernel.InjectedError{What: "connection lost while the request body was arriving"}
	}
	sreq.Body = st
	sreq.RemoteAddr = "192.0.2.1:1234"
	b.ServerRequests = append(b.ServerRequests, sreq)
	rec := httptest.NewRecorder()
	op := b.Env.Begin(name, "serve", nil, nil)
	if pm := kernel.Catch(func() { b.Handler.ServeHTTP(rec, sreq) }); pm != "" {
		// net/http's server recovers a handler panic and aborts the connection: the client gets no (complete) response
		b.HandlerPanics = append(b.HandlerPanics, pm)
		op.End("handler panicked: connection aborted")
		return nil, &HandlerPanicError{Panic: pm}
	}
	op.End("%d", rec.Code)
	res := rec.Result()
	var wire2 bytes.Buffer
	if err := res.Write(&wire2); err != nil {
		return nil, fmt.Errorf("bridge: writing response: %w", err)
	}
	resp, err := http.ReadResponse(bufio.NewReader(bytes.NewReader(wire2.Bytes())), req)
	if err != nil {
		return nil, fmt.Errorf("bridge: client cannot parse the response: %w", err)
	}
	return resp, nil
}
