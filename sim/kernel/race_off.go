//go:build !race

package kernel

// RaceEnabled reports whether the binary was built with -race.
const RaceEnabled = false
