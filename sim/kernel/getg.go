package kernel

// getg returns an opaque identity of the calling goroutine.  K2 uses it to
// ignore yield points reached by goroutines that are not its tasks (goroutines
// started by the code under test), which would otherwise corrupt the hand-off.
func getg() uintptr
