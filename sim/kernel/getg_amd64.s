#include "textflag.h"

// func getg() uintptr — the current goroutine's g pointer (identity only).
TEXT ·getg(SB),NOSPLIT,$0-8
	MOVQ (TLS), AX
	MOVQ AX, ret+0(FP)
	RET
