package kernel

import (
	"encoding/json"
	"fmt"
	"os"
	"path/filepath"
	"sort"
)

type MergeCfg struct {
	Prop         Property
	Tier         string
	Seed         int64
	OutDir       string // worker outputs
	EvidencePath string
	WallS        float64
	Workers      int
	BuildInfo    map[string]any
}

// Merge combines the worker outputs into the evidence file and prints the
// KNOWN-FINDING / VIOLATION lines.  Returns the process exit code.
func Merge(c MergeCfg) int {
	files, _ := filepath.Glob(filepath.Join(c.OutDir, "worker-*.json"))
	sort.Strings(files)
	if len(files) != c.Workers {
		fmt.Printf("INFRA: %d of %d workers reported\n", len(files), c.Workers)
		return 2
	}
	sigs := map[uint64]struct{}{}
	faults := map[string]int{}
	probes := map[string]int{}
	known := map[string]int{}
	seenViol := map[string]bool{}
	knownWhat := map[string]string{}
	var samples []Sample
	var viol, violSum, infra []string
	runs, sweepRuns := 0, 0
	var simNS int64
	var workerWall float64
	for _, f := range files {
		b, err := os.ReadFile(f)
		if err != nil {
			fmt.Printf("INFRA: %v\n", err)
			return 2
		}
		var w WorkerOut
		if err := json.Unmarshal(b, &w); err != nil {
			fmt.Printf("INFRA: %s: %v\n", f, err)
			return 2
		}
		runs += w.Runs
		sweepRuns += w.SweepRuns
		simNS += w.SimTimeNS
		workerWall += w.WallS
		for _, s := range w.Sigs {
			sigs[s] = struct{}{}
		}
		for k, n := range w.Faults {
			faults[k] += n
		}
		for k, n := range w.Probes {
			probes[k] += n
		}
		for k, n := range w.Known {
			known[k] += n
			knownWhat[k] = w.KnownWhat[k]
		}
		if len(samples) < 4 {
			for _, s := range w.Samples {
				if len(samples) < 4 {
					samples = append(samples, s)
				}
			}
		}
		for i, path := range w.Violations {
			key := path
			if i < len(w.ViolKeys) {
				key = w.ViolKeys[i]
			}
			if seenViol[key] {
				os.Remove(path) // same class and signature already reported by another worker
				continue
			}
			seenViol[key] = true
			viol = append(viol, path)
			violSum = append(violSum, w.ViolSummary[i])
		}
		infra = append(infra, w.Infra...)
	}
	d := c.Prop.Describe()
	evals := runs + sweepRuns
	perHour := 0.0
	if c.WallS > 0 {
		perHour = float64(evals) / c.WallS * 3600
	}
	cov := map[string]any{
		"evaluations":         evals,
		"distinct_nontrivial": len(sigs),
		"rule":                d.Rule,
		"samples":             samples,
		"random_runs":         runs,
		"sweep_scenarios":     sweepRuns,
		"exhaustive":          false,
		"engine":              c.Prop.Engine(),
		"runs_per_hour":       int64(perHour),
		"seeds_per_hour":      int64(perHour),
		"simulated_time_s":    float64(simNS) / 1e9,
		"fault_kinds_fired":   faults,
		"reach_probes":        probes,
		"components_real":     d.Real,
		"components_stub":     d.Stubs,
		"known_findings_hit":  known,
		"workers":             c.Workers,
		"worker_cpu_s":        workerWall,
		"build":               c.BuildInfo,
	}
	ev := map[string]any{
		"property_id": c.Prop.ID(),
		"tier":        c.Tier,
		"seed":        c.Seed,
		"level":       c.Prop.Level(),
		"coverage":    cov,
		"assumptions": d.Assumptions,
		"wall_s":      c.WallS,
		"violations":  len(viol),
	}
	if len(infra) > 0 {
		cov["infrastructure_notes"] = infra
	}
	b, _ := json.MarshalIndent(ev, "", " ")
	if err := os.MkdirAll(filepath.Dir(c.EvidencePath), 0o755); err == nil {
		err = os.WriteFile(c.EvidencePath, b, 0o644)
		if err != nil {
			fmt.Printf("INFRA: %v\n", err)
			return 2
		}
	}
	keys := make([]string, 0, len(known))
	for k := range known {
		keys = append(keys, k)
	}
	sort.Strings(keys)
	for _, k := range keys {
		fmt.Printf("KNOWN-FINDING: property=%s %s — %s (hit in %d runs)\n", c.Prop.ID(), k, knownWhat[k], known[k])
	}
	fmt.Printf("%s %s: %d runs (%d sweep + %d random), %d distinct non-trivial signatures, faults fired %v, %.1fs\n",
		c.Prop.ID(), c.Tier, evals, sweepRuns, runs, len(sigs), faults, c.WallS)
	for i, v := range viol {
		fmt.Printf("  %s\n", violSum[i])
		fmt.Printf("VIOLATION property=%s replay=%s\n", c.Prop.ID(), v)
	}
	if len(viol) > 0 {
		return 1
	}
	if len(infra) > 0 {
		for _, s := range infra {
			fmt.Printf("INFRA: %s\n", s)
		}
		return 2
	}
	if evals == 0 || len(sigs) < 2 {
		fmt.Printf("INFRA: too little explored (evaluations=%d distinct=%d)\n", evals, len(sigs))
		return 2
	}
	return 0
}
