package kernel

import (
	"fmt"
	"os"
	"path/filepath"
	"sort"
	"strings"
	"sync"
	"syscall"
	"time"
	"unsafe"

	"verif.local/simrt"
)

// K2 is the race-visible exclusive scheduler.  Tasks are goroutines of which
// exactly one runs at a time.  Control is handed over with raw read/write
// system calls on per-task pipes, which the race detector does not treat as
// synchronisation: in a -race build the only happens-before edges it sees are
// the program's own, so a conflicting pair of accesses ordered only by this
// scheduler is reported as a data race — deterministically for a given tape.
//
// Everything the tasks share with the scheduler lives in //go:norace
// functions over plain memory (no maps, no append: those call instrumented
// runtime helpers).
type K2 struct {
	tape    *Tape
	tasks   []*k2task
	cur     *k2task
	back    gate
	change  []int // global yield numbers at which the running task is preempted (sorted)
	nextCP  int
	yields  int
	trace   []int32 // task id per scheduling decision (preallocated)
	ntrace  int
	points  int
	PointIn int // at a Point() the task is preempted with probability 1/PointIn (0 = never)
	// pointDraws are pre-drawn so that tasks never touch the tape
	pointDraws []bool
	npoint     int
	Switches   int
	foreign    int
}

type k2task struct {
	id        int
	name      string
	g         gate
	fn        func()
	done      bool
	lockDepth int
	panicMsg  string
	gp        uintptr // identity of the task's goroutine
}

type gate struct{ r, w int }

func newGate() gate {
	var p [2]int
	if err := syscall.Pipe(p[:]); err != nil {
		panic("k2: pipe: " + err.Error())
	}
	return gate{p[0], p[1]}
}

func (g gate) close() {
	syscall.Close(g.r)
	syscall.Close(g.w)
}

//go:norace
func (g gate) wait() {
	var b [1]byte
	for {
		n, _, e := syscall.Syscall(syscall.SYS_READ, uintptr(g.r), uintptr(unsafe.Pointer(&b[0])), 1)
		if e == syscall.EINTR || e == syscall.EAGAIN {
			continue
		}
		if n != 1 {
			panic("k2: gate read failed")
		}
		return
	}
}

//go:norace
func (g gate) signal() {
	b := [1]byte{1}
	for {
		n, _, e := syscall.Syscall(syscall.SYS_WRITE, uintptr(g.w), uintptr(unsafe.Pointer(&b[0])), 1)
		if e == syscall.EINTR || e == syscall.EAGAIN {
			continue
		}
		if n != 1 {
			panic("k2: gate write failed")
		}
		return
	}
}

func NewK2(t *Tape) *K2 { return &K2{tape: t, PointIn: 3} }

// Add registers a task; all tasks are added before Run.
func (k *K2) Add(name string, fn func()) {
	k.tasks = append(k.tasks, &k2task{id: len(k.tasks), name: name, fn: fn})
}

//go:norace
func (k *K2) yield(site int) {
	t := k.cur
	if t == nil || t.gp != getg() {
		if t != nil {
			k.foreign++
		}
		return
	}
	if t.lockDepth > 0 {
		return
	}
	k.yields++
	if k.nextCP < len(k.change) && k.yields >= k.change[k.nextCP] {
		for k.nextCP < len(k.change) && k.yields >= k.change[k.nextCP] {
			k.nextCP++
		}
		k.back.signal()
		t.g.wait()
	}
}

//go:norace
func (k *K2) lockDelta(d int) {
	if t := k.cur; t != nil && t.gp == getg() {
		t.lockDepth += d
	}
}

// Point is a preemption point at a simulator object (transport, scripted
// collaborator); called by tasks.
//
//go:norace
func (k *K2) Point() {
	t := k.cur
	if t == nil || t.gp != getg() || t.lockDepth > 0 {
		return
	}
	k.points++
	if k.npoint < len(k.pointDraws) {
		p := k.pointDraws[k.npoint]
		k.npoint++
		if p {
			k.back.signal()
			t.g.wait()
		}
	}
}

//go:norace
func (k *K2) finish(t *k2task) {
	t.done = true
	k.back.signal()
}

//go:norace
func (k *K2) record(id int) {
	if k.ntrace < len(k.trace) {
		k.trace[k.ntrace] = int32(id)
		k.ntrace++
	}
}

// Run executes all tasks to completion under the tape's schedule.  estYields is
// the expected total number of yield points (from solo runs); maxChanges bounds
// the number of preemption change points (PCT depth).
func (k *K2) Run(estYields, maxChanges int) {
	if estYields < 1 {
		estYields = 1
	}
	d := k.tape.Choose(maxChanges+1, "k2-depth")
	for i := 0; i < d; i++ {
		k.change = append(k.change, 1+k.tape.Choose(estYields, "k2-change-point"))
	}
	sort.Ints(k.change)
	if k.PointIn > 0 {
		k.pointDraws = make([]bool, 64)
		for i := range k.pointDraws {
			k.pointDraws[i] = k.tape.Bool(k.PointIn, "k2-point")
		}
	}
	k.trace = make([]int32, 4096)
	k.back = newGate()
	var wg sync.WaitGroup
	for _, t := range k.tasks {
		t.g = newGate()
	}
	simrt.YieldFn = k.yield
	simrt.LockFn = k.lockDelta
	// A heartbeat for the Go scheduler, not for the schedule: tasks hand over through raw blocking system calls, and on
	// a heavily loaded machine a task returning from one was seen to sit runnable until the next timer of the process
	// fired (the 30 s request timeout of the code under test, which then expired inside the run).  The ticker touches
	// nothing the tasks or the scheduler share and decides nothing.
	heartbeat := make(chan struct{})
	go func() {
		tk := time.NewTicker(2 * time.Millisecond)
		defer tk.Stop()
		for {
			select {
			case <-tk.C:
			case <-heartbeat:
				return
			}
		}
	}()
	defer close(heartbeat)
	for _, t := range k.tasks {
		t := t
		wg.Add(1)
		go func() {
			k2setgp(t)
			t.g.wait()
			t.panicMsg = Catch(t.fn)
			wg.Done() // ordinary synchronisation with the collector, after the task's last access
			k.finish(t)
		}()
	}
	for {
		var runnable []*k2task
		for _, t := range k.tasks {
			if !k2done(t) {
				runnable = append(runnable, t)
			}
		}
		if len(runnable) == 0 {
			break
		}
		// after a preemption prefer a different task: index 0 = "the next one after cur"
		idx := 0
		if cur := k.cur; cur != nil && len(runnable) > 1 {
			for i, t := range runnable {
				if t.id > cur.id {
					idx = i
					break
				}
			}
		}
		pick := (idx + k.tape.Choose(len(runnable), "k2-next")) % len(runnable)
		t := runnable[pick]
		k2setcur(k, t)
		k.Switches++
		k.record(t.id)
		t.g.signal()
		k.back.wait()
	}
	k2setcur(k, nil)
	wg.Wait()
	simrt.YieldFn = nil
	simrt.LockFn = nil
	k.back.close()
	for _, t := range k.tasks {
		t.g.close()
	}
}

//go:norace
func k2setgp(t *k2task) { t.gp = getg() }

// Foreign is the number of yield points reached by goroutines that are not
// tasks of this scheduler (started by the code under test); they run outside
// the exclusive schedule.
func (k *K2) Foreign() int { return k.foreign }

//go:norace
func k2done(t *k2task) bool { return t.done }

//go:norace
func k2setcur(k *K2, t *k2task) { k.cur = t }

// Panics returns the panic messages of tasks, by task name.
func (k *K2) Panics() map[string]string {
	out := map[string]string{}
	for _, t := range k.tasks {
		if t.panicMsg != "" {
			out[t.name] = t.panicMsg
		}
	}
	return out
}

// Signature folds the schedule into a hash.
func (k *K2) Signature() uint64 {
	h := uint64(1469598103934665603)
	for i := 0; i < k.ntrace; i++ {
		h = Mix(h, uint64(k.trace[i])+1)
	}
	for _, c := range k.change {
		h = Mix(h, uint64(c)<<8)
	}
	return Mix(h, uint64(k.yields))
}

func (k *K2) TraceString() string {
	var sb strings.Builder
	for i := 0; i < k.ntrace && i < 200; i++ {
		fmt.Fprintf(&sb, "%d", k.trace[i])
	}
	return fmt.Sprintf("order=%s change-points=%v yields=%d points=%d", sb.String(), k.change, k.yields, k.points)
}

func (k *K2) Yields() int { return k.yields }

// CountYields runs fn alone with a counting yield hook and returns the number
// of yield points it passed (used to scale the change points).
func CountYields(fn func()) int {
	n := 0
	simrt.YieldFn = func(int) { n++ }
	defer func() { simrt.YieldFn = nil }()
	fn()
	return n
}

// ---------------------------------------------------------------------------
// race report capture

// RaceLog reads the race detector's log file (GORACE=log_path=...) incrementally.
type RaceLog struct {
	path string
	off  int64
}

// OpenRaceLog finds this process's log file from GORACE; returns nil when the
// binary was not built with -race or no log_path is configured.
func OpenRaceLog() *RaceLog {
	if !RaceEnabled {
		return nil
	}
	for _, f := range strings.Fields(os.Getenv("GORACE")) {
		if strings.HasPrefix(f, "log_path=") {
			p := strings.TrimPrefix(f, "log_path=") + fmt.Sprintf(".%d", os.Getpid())
			rl := &RaceLog{path: p}
			rl.Drain()
			return rl
		}
	}
	return nil
}

// Drain returns the reports written since the last call.
func (r *RaceLog) Drain() []RaceReport {
	if r == nil {
		return nil
	}
	matches, _ := filepath.Glob(r.path)
	if len(matches) == 0 {
		return nil
	}
	b, err := os.ReadFile(r.path)
	if err != nil || int64(len(b)) <= r.off {
		return nil
	}
	text := string(b[r.off:])
	r.off = int64(len(b))
	return ParseRaceReports(text)
}

type RaceReport struct {
	Text   string
	Stacks [2][]string // function names of the two access stacks, innermost first
}

func ParseRaceReports(text string) []RaceReport {
	var out []RaceReport
	for _, blk := range strings.Split(text, "WARNING: DATA RACE")[1:] {
		if i := strings.Index(blk, "=================="); i >= 0 {
			blk = blk[:i]
		}
		rep := RaceReport{Text: "WARNING: DATA RACE" + blk}
		sections := strings.Split(blk, "\n\n")
		n := 0
		for _, sec := range sections {
			lines := strings.Split(strings.TrimLeft(sec, "\n"), "\n")
			if len(lines) == 0 {
				continue
			}
			head := lines[0]
			if !(strings.Contains(head, " by goroutine ") || strings.Contains(head, " by main goroutine")) || strings.HasPrefix(head, "Goroutine") {
				continue
			}
			if n >= 2 {
				break
			}
			for _, l := range lines[1:] {
				if strings.HasPrefix(l, "  ") && !strings.HasPrefix(l, "      ") {
					fn := strings.TrimSpace(l)
					if j := strings.LastIndex(fn, "("); j > 0 && strings.HasSuffix(fn, ")") {
						fn = fn[:j]
					}
					rep.Stacks[n] = append(rep.Stacks[n], fn)
				}
			}
			n++
		}
		out = append(out, rep)
	}
	return out
}

func isStdlibFunc(fn string) bool {
	first := fn
	if i := strings.Index(fn, "/"); i >= 0 {
		first = fn[:i]
	} else if i := strings.Index(fn, "."); i >= 0 {
		// "runtime.mapaccess", "sync.(*Mutex).Lock", "strings.Map"
		return true
	}
	return !strings.Contains(first, ".")
}

// InnermostUser returns the innermost frame that is not standard library.
func InnermostUser(stack []string) string {
	for _, fn := range stack {
		if !isStdlibFunc(fn) {
			return fn
		}
	}
	return ""
}

// Admitted reports whether both access stacks have their innermost
// non-stdlib frame inside prefix (the code under test), and returns the two
// function names, sorted.
func (r RaceReport) Admitted(prefix string) (bool, string) {
	a, b := InnermostUser(r.Stacks[0]), InnermostUser(r.Stacks[1])
	if !strings.HasPrefix(a, prefix) || !strings.HasPrefix(b, prefix) {
		return false, ""
	}
	a, b = strings.TrimPrefix(a, prefix), strings.TrimPrefix(b, prefix)
	if b < a {
		a, b = b, a
	}
	return true, a + " vs " + b
}
