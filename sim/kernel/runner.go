package kernel

import (
	"encoding/json"
	"fmt"
	"os"
	"path/filepath"
	"sort"
	"strings"
	"testing"
	"time"
)

// Scenario is an explicit, enumerated starting point of a run (sweeps).  A
// random run has an empty scenario and draws everything from the tape.
type Scenario struct {
	Name   string          `json:"name,omitempty"`
	Params json.RawMessage `json:"params,omitempty"`
}

// Result of one simulated run.
type Result struct {
	Viol       []Violation
	History    []string
	Sig        uint64 // schedule/fault signature
	Nontrivial bool   // ≥2 operations were pending together, or ≥1 fault fired
	Faults     map[string]int
	Probes     map[string]int
	SimTime    time.Duration
	Infra      string // non-empty: infrastructure trouble (exit 2), never a violation
	Summary    string // one-line description of the case (for samples)
	// NoMinimise: the violation cannot be re-observed in this process (race
	// reports are deduplicated per process); the replay file keeps the full tape.
	NoMinimise bool
}

// FromEnv fills the generic parts of a result from the run environment.
func (r *Result) FromEnv(e *Env) {
	r.History = e.History()
	r.Sig = e.Signature()
	// copies, under the lock: a goroutine leaked by the code under test may still be touching the environment
	e.mu.Lock()
	r.Faults, r.Probes = map[string]int{}, map[string]int{}
	for k, v := range e.Faults {
		r.Faults[k] = v
	}
	for k, v := range e.Probes {
		r.Probes[k] = v
	}
	r.Viol = append(r.Viol, e.Viol...)
	for _, m := range e.misuse {
		r.Viol = append(r.Viol, Violation{Class: "SIM/object-used-by-a-stray-goroutine", Sig: "stream", Msg: m})
	}
	e.mu.Unlock()
	r.SimTime = e.SimTime
	nf := 0
	for _, n := range r.Faults {
		nf += n
	}
	r.Nontrivial = e.Interleaved || nf > 0
}

// Property is what each props/cNN package implements.
type Property interface {
	ID() string
	// Engine names the engine for the evidence ("SEQ", "K1", "K2").
	Engine() string
	Level() string // exploration | fault_enumeration
	// Run executes one run.  All choices come from tape (after the scenario).
	Run(t *testing.T, tape *Tape, sc Scenario) *Result
	// Sweep enumerates the systematic scenarios of a tier (may be nil).
	Sweep(tier string) []Scenario
	// Budget is the number of random runs for a tier (over all workers).
	Budget(tier string) int
	// Describe fills the static parts of the evidence.
	Describe() Description
}

type Description struct {
	Rule        string
	Real        []string
	Stubs       []string
	Assumptions []string
}

// Replay is the replay file.
type Replay struct {
	Property string   `json:"property"`
	Engine   string   `json:"engine"`
	Tier     string   `json:"tier"`
	Seed     int64    `json:"seed"`
	Run      int      `json:"run"`
	Scenario Scenario `json:"scenario"`
	// Regen: the run did not finish (the process died), so there is no recorded
	// tape; it is regenerated from (seed, run), which is what the worker did.
	Regen    bool      `json:"regen,omitempty"`
	Tape     []uint32  `json:"tape"`
	Class    string    `json:"class"`
	Sig      string    `json:"sig"`
	Msg      string    `json:"msg"`
	History  []string  `json:"history"`
	Minimise MinReport `json:"minimise"`
}

type MinReport struct {
	OriginalTapeLen int `json:"original_tape_len"`
	FinalTapeLen    int `json:"final_tape_len"`
	NonZero         int `json:"non_zero_entries"`
	Candidates      int `json:"candidates_tried"`
}

// Finding is one entry of known_findings.json.
type Finding struct {
	Status   string `json:"status"` // known | fixed
	Property string `json:"property"`
	Class    string `json:"class"`
	Sig      string `json:"sig"` // exact signature, or prefix when it ends with '*'
	What     string `json:"what"`
	Commit   string `json:"commit,omitempty"`
}

type Findings struct{ List []Finding }

func LoadFindings(path string) (*Findings, error) {
	b, err := os.ReadFile(path)
	if err != nil {
		if os.IsNotExist(err) {
			return &Findings{}, nil
		}
		return nil, err
	}
	var f struct {
		Findings []Finding `json:"findings"`
	}
	if err := json.Unmarshal(b, &f); err != nil {
		return nil, fmt.Errorf("%s: %w", path, err)
	}
	return &Findings{List: f.Findings}, nil
}

// Known returns the known (not fixed) finding matching a violation, if any.
func (f *Findings) Known(prop string, v Violation) *Finding {
	for i := range f.List {
		k := &f.List[i]
		if k.Status != "known" || k.Property != prop || k.Class != v.Class {
			continue
		}
		if k.Sig == v.Sig || (strings.HasSuffix(k.Sig, "*") && strings.HasPrefix(v.Sig, strings.TrimSuffix(k.Sig, "*"))) {
			return k
		}
	}
	return nil
}

// WorkerOut is what one worker process writes.
type WorkerOut struct {
	Property    string
	Tier        string
	Seed        int64
	Worker      int
	Runs        int
	SweepRuns   int
	Sigs        []uint64 // signatures of non-trivial runs (deduplicated per worker)
	Faults      map[string]int
	Probes      map[string]int
	SimTimeNS   int64
	WallS       float64
	Samples     []Sample
	Known       map[string]int // finding key -> hits
	KnownWhat   map[string]string
	Violations  []string // replay file paths
	ViolSummary []string
	ViolKeys    []string
	Infra       []string
}

type Sample struct {
	Run      int      `json:"run"`
	Scenario string   `json:"scenario,omitempty"`
	Summary  string   `json:"summary,omitempty"`
	History  []string `json:"history"`
}

type WorkerCfg struct {
	Prop      Property
	Tier      string
	Seed      int64
	Worker    int
	Workers   int
	OutPath   string
	ReplayDir string
	Findings  *Findings
	MaxWall   time.Duration
	Budget    int // overrides Prop.Budget if >0
}

func RunSeed(seed int64, run int) uint64 {
	return Mix(uint64(seed)*0x51ED270B+0x9E3779B9, uint64(run)+1)
}

// RunWorker executes this worker's share of sweep scenarios and random runs.
func RunWorker(t *testing.T, c WorkerCfg) {
	start := time.Now()
	out := &WorkerOut{Property: c.Prop.ID(), Tier: c.Tier, Seed: c.Seed, Worker: c.Worker,
		Faults: map[string]int{}, Probes: map[string]int{}, Known: map[string]int{}, KnownWhat: map[string]string{}}
	sigs := map[uint64]struct{}{}
	distinctViol := map[string]bool{}
	budget := c.Budget
	if budget <= 0 {
		budget = c.Prop.Budget(c.Tier)
	}
	sweep := c.Prop.Sweep(c.Tier)
	total := len(sweep) + budget

	handle := func(run int, sc Scenario, tape *Tape, res *Result) {
		if res.Infra != "" {
			out.Infra = append(out.Infra, fmt.Sprintf("run %d: %s", run, res.Infra))
			return
		}
		for k, n := range res.Faults {
			out.Faults[k] += n
		}
		for k, n := range res.Probes {
			out.Probes[k] += n
		}
		out.SimTimeNS += int64(res.SimTime)
		if res.Nontrivial {
			sigs[res.Sig] = struct{}{}
		}
		if len(out.Samples) < 3 && (res.Nontrivial || run < 3) {
			h := res.History
			if len(h) > 60 {
				h = append(append([]string{}, h[:50]...), fmt.Sprintf("… %d more lines", len(h)-50))
			}
			out.Samples = append(out.Samples, Sample{Run: run, Scenario: sc.Name, Summary: res.Summary, History: h})
		}
		for _, v := range res.Viol {
			if k := c.Findings.Known(c.Prop.ID(), v); k != nil {
				key := k.Class + "|" + k.Sig
				out.Known[key]++
				out.KnownWhat[key] = k.What
				continue
			}
			if distinctViol[v.Key()] || len(distinctViol) >= 4 {
				continue
			}
			distinctViol[v.Key()] = true
			var rep *Replay
			if res.NoMinimise {
				rep = &Replay{Scenario: sc, Tape: tape.Snapshot(), Class: v.Class, Sig: v.Sig, Msg: v.Msg, History: res.History,
					Minimise: MinReport{OriginalTapeLen: len(tape.Rec), FinalTapeLen: len(tape.Rec)}}
			} else {
				rep = Minimise(t, c.Prop, sc, tape.Snapshot(), v, c.Findings)
			}
			rep.Property, rep.Engine, rep.Tier, rep.Seed, rep.Run = c.Prop.ID(), c.Prop.Engine(), c.Tier, c.Seed, run
			name := fmt.Sprintf("%s-%s-seed%d-run%d.json", c.Prop.ID(), sanitize(v.Class), c.Seed, run)
			path := filepath.Join(c.ReplayDir, name)
			b, _ := json.MarshalIndent(rep, "", " ")
			if err := os.WriteFile(path, b, 0o644); err != nil {
				out.Infra = append(out.Infra, err.Error())
			}
			out.Violations = append(out.Violations, path)
			out.ViolSummary = append(out.ViolSummary, fmt.Sprintf("%s [%s] %s", v.Class, v.Sig, v.Msg))
			out.ViolKeys = append(out.ViolKeys, v.Key())
		}
	}

	cur, _ := os.OpenFile(c.OutPath+".cur", os.O_CREATE|os.O_WRONLY|os.O_TRUNC, 0o644)
	defer cur.Close()
	for i := c.Worker; i < total; i += c.Workers {
		if cur != nil {
			// one pwrite per run: if the code under test kills the process (stack
			// overflow, concurrent map writes, a panic on a goroutine of its own),
			// the triage step knows which run it was
			_, _ = cur.WriteAt([]byte(fmt.Sprintf("%-31d\n", i)), 0)
		}
		if c.MaxWall > 0 && time.Since(start) > c.MaxWall {
			out.Infra = append(out.Infra, fmt.Sprintf("wall budget %v exhausted after %d of this worker's runs", c.MaxWall, out.Runs+out.SweepRuns))
			break
		}
		var sc Scenario
		if i < len(sweep) {
			sc = sweep[i]
			out.SweepRuns++
		} else {
			out.Runs++
		}
		tape := NewTape(RunSeed(c.Seed, i))
		res := c.Prop.Run(t, tape, sc)
		handle(i, sc, tape, res)
		if len(distinctViol) >= 4 {
			break
		}
	}
	for s := range sigs {
		out.Sigs = append(out.Sigs, s)
	}
	sort.Slice(out.Sigs, func(i, j int) bool { return out.Sigs[i] < out.Sigs[j] })
	out.WallS = time.Since(start).Seconds()
	b, _ := json.Marshal(out)
	if err := os.WriteFile(c.OutPath, b, 0o644); err != nil {
		t.Fatalf("write %s: %v", c.OutPath, err)
	}
}

func sanitize(s string) string {
	return strings.Map(func(r rune) rune {
		if r >= 'a' && r <= 'z' || r >= 'A' && r <= 'Z' || r >= '0' && r <= '9' || r == '-' {
			return r
		}
		return '_'
	}, s)
}

// sameViolation reports whether res contains a violation of the same class
// and signature as want (and that it is not merely a known finding).
func sameViolation(res *Result, want Violation) *Violation {
	if res.Infra != "" {
		return nil
	}
	for i := range res.Viol {
		if res.Viol[i].Class == want.Class && res.Viol[i].Sig == want.Sig {
			return &res.Viol[i]
		}
	}
	return nil
}

// Minimise shrinks the tape by delta debugging while the same violation
// (class and signature) reproduces, then returns the replay record.
func Minimise(t *testing.T, p Property, sc Scenario, tape []uint32, want Violation, _ *Findings) *Replay {
	orig := len(tape)
	tries := 0
	deadline := time.Now().Add(20 * time.Second)
	test := func(cand []uint32) *Result {
		tries++
		res := p.Run(t, ReplayTape(cand), sc)
		if sameViolation(res, want) != nil {
			return res
		}
		return nil
	}
	cur := append([]uint32(nil), tape...)
	best := test(cur)
	if best == nil {
		// does not reproduce from its own tape: report as is (determinism bug in the harness)
		return &Replay{Scenario: sc, Tape: cur, Class: want.Class, Sig: want.Sig,
			Msg:      want.Msg + " [WARNING: did not reproduce from recorded tape]",
			Minimise: MinReport{OriginalTapeLen: orig, FinalTapeLen: len(cur), Candidates: tries}}
	}
	budgetOK := func() bool { return tries < 3000 && time.Now().Before(deadline) }
	// 1. truncate the tail (exhausted tape yields benign zeros)
	for n := len(cur) / 2; n >= 1 && budgetOK(); n /= 2 {
		for len(cur) > n && budgetOK() {
			cand := cur[:len(cur)-n]
			if r := test(cand); r != nil {
				cur, best = append([]uint32(nil), cand...), r
			} else {
				break
			}
		}
	}
	// 2. delete blocks
	for n := len(cur) / 2; n >= 1 && budgetOK(); n /= 2 {
		for i := 0; i+n <= len(cur) && budgetOK(); {
			cand := append(append([]uint32(nil), cur[:i]...), cur[i+n:]...)
			if r := test(cand); r != nil {
				cur, best = cand, r
			} else {
				i += n
			}
		}
	}
	// 3. zero, then lower entries
	for i := 0; i < len(cur) && budgetOK(); i++ {
		if cur[i] == 0 {
			continue
		}
		cand := append([]uint32(nil), cur...)
		cand[i] = 0
		if r := test(cand); r != nil {
			cur, best = cand, r
			continue
		}
		for cur[i] > 1 && budgetOK() {
			cand := append([]uint32(nil), cur...)
			cand[i] = cur[i] / 2
			if r := test(cand); r != nil {
				cur, best = cand, r
			} else {
				break
			}
		}
	}
	// drop trailing zeros
	for len(cur) > 0 && cur[len(cur)-1] == 0 {
		cur = cur[:len(cur)-1]
	}
	nz := 0
	for _, v := range cur {
		if v != 0 {
			nz++
		}
	}
	v := sameViolation(best, want)
	return &Replay{Scenario: sc, Tape: cur, Class: v.Class, Sig: v.Sig, Msg: v.Msg, History: best.History,
		Minimise: MinReport{OriginalTapeLen: orig, FinalTapeLen: len(cur), NonZero: nz, Candidates: tries}}
}

// RunReplay re-executes a replay file; returns whether the same violation came out.
func RunReplay(t *testing.T, p Property, path string) (bool, *Result, *Replay, error) {
	b, err := os.ReadFile(path)
	if err != nil {
		return false, nil, nil, err
	}
	var rep Replay
	if err := json.Unmarshal(b, &rep); err != nil {
		return false, nil, nil, err
	}
	tape := ReplayTape(rep.Tape)
	if rep.Regen {
		tape = NewTape(RunSeed(rep.Seed, rep.Run))
	}
	res := p.Run(t, tape, rep.Scenario)
	return sameViolation(res, Violation{Class: rep.Class, Sig: rep.Sig}) != nil, res, &rep, nil
}

var registry = map[string]Property{}

func Register(p Property)       { registry[p.ID()] = p }
func Lookup(id string) Property { return registry[id] }

// Catch runs f and converts a panic into a message (with a short stack digest).
func Catch(f func()) (panicMsg string) {
	defer func() {
		if r := recover(); r != nil {
			panicMsg = fmt.Sprint(r)
			if panicMsg == "" {
				panicMsg = "panic"
			}
		}
	}()
	f()
	return ""
}

// Triage inspects the log of a worker process that died.  If the fatal error
// (or unrecovered panic) was raised with the innermost non-stdlib frame of the
// crashing goroutine inside the code under test, it is a violation of the
// property being exercised: a replay file is written and a WorkerOut with that
// violation replaces the missing worker output.  Anything else is
// infrastructure trouble and is left alone (returns false).
func Triage(c WorkerCfg, logPath string) bool {
	logb, err := os.ReadFile(logPath)
	if err != nil {
		return false
	}
	curb, err := os.ReadFile(c.OutPath + ".cur")
	if err != nil {
		return false
	}
	var run int
	if _, err := fmt.Sscanf(strings.TrimSpace(string(curb)), "%d", &run); err != nil {
		return false
	}
	what, fn := ParseCrash(string(logb), "github.com/go-openapi/runtime")
	if fn == "" {
		return false
	}
	sweep := c.Prop.Sweep(c.Tier)
	var sc Scenario
	if run < len(sweep) {
		sc = sweep[run]
	}
	class := c.Prop.ID() + "/fatal-crash"
	rep := &Replay{Property: c.Prop.ID(), Engine: c.Prop.Engine(), Tier: c.Tier, Seed: c.Seed, Run: run, Scenario: sc, Regen: true,
		Class: class, Sig: fn, Msg: fmt.Sprintf("the process died during this run: %s; crashing goroutine's innermost frame in the code under test: %s", what, fn)}
	path := filepath.Join(c.ReplayDir, fmt.Sprintf("%s-fatal-crash-seed%d-run%d.json", c.Prop.ID(), c.Seed, run))
	b, _ := json.MarshalIndent(rep, "", " ")
	if err := os.WriteFile(path, b, 0o644); err != nil {
		return false
	}
	out := &WorkerOut{Property: c.Prop.ID(), Tier: c.Tier, Seed: c.Seed, Worker: c.Worker, Runs: 0,
		Faults: map[string]int{}, Probes: map[string]int{}, Known: map[string]int{}, KnownWhat: map[string]string{},
		Violations: []string{path}, ViolSummary: []string{fmt.Sprintf("%s [%s] %s", class, fn, rep.Msg)}, ViolKeys: []string{class + "|" + fn}}
	if k := c.Findings.Known(c.Prop.ID(), Violation{Class: class, Sig: fn}); k != nil {
		out.Violations, out.ViolSummary, out.ViolKeys = nil, nil, nil
		out.Known[k.Class+"|"+k.Sig] = 1
		out.KnownWhat[k.Class+"|"+k.Sig] = k.What
	}
	ob, _ := json.Marshal(out)
	return os.WriteFile(c.OutPath, ob, 0o644) == nil
}

// ParseCrash finds the Go runtime's fatal error / panic banner in a process
// log and returns it together with the innermost frame of the crashing
// goroutine that is not standard library, provided that frame lies under
// prefix ("" otherwise).
func ParseCrash(log, prefix string) (what, fn string) {
	lines := strings.Split(log, "\n")
	start := -1
	for i, l := range lines {
		if strings.HasPrefix(l, "fatal error: ") || strings.HasPrefix(l, "panic: ") || strings.HasPrefix(l, "runtime: goroutine stack exceeds") {
			if start < 0 {
				start = i
				what = l
			}
		}
	}
	if start < 0 {
		return "", ""
	}
	// the first goroutine block after the banner is the crashing one
	for i := start; i < len(lines); i++ {
		if !strings.HasPrefix(lines[i], "goroutine ") || !strings.Contains(lines[i], "[running") {
			continue
		}
		for j := i + 1; j < len(lines) && lines[j] != ""; j++ {
			l := lines[j]
			if strings.HasPrefix(l, "\t") || strings.HasPrefix(l, " ") || strings.HasPrefix(l, "...") {
				continue
			}
			f := l
			if k := strings.LastIndex(f, "("); k > 0 {
				f = f[:k]
			}
			if isStdlibFunc(f) {
				continue
			}
			if strings.HasPrefix(f, prefix) {
				return what, strings.TrimPrefix(strings.TrimPrefix(f, prefix), "/")
			}
			return what, ""
		}
		return what, ""
	}
	return what, ""
}
