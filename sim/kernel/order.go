package kernel

import (
	"sort"

	"verif.local/simrt"
)

// InstallOrder makes every instrumented map range of the code under test
// iterate in an order that is a stateless function of (salt, site, key):
// salt 0 keeps the sorted order, any other salt is a pseudo-random
// permutation per site.  The order does not depend on who asks first.
func InstallOrder(salt uint64) {
	simrt.OrderFn = func(site int, keys []string) {
		if salt == 0 {
			return // already sorted
		}
		sort.SliceStable(keys, func(i, j int) bool {
			hi := Mix(Mix(salt, uint64(site)), HashString(keys[i]))
			hj := Mix(Mix(salt, uint64(site)), HashString(keys[j]))
			if hi != hj {
				return hi < hj
			}
			return keys[i] < keys[j]
		})
	}
}

// OrderFunc returns the permutation function for a salt (nil for salt 0 = keep sorted).
func OrderFunc(salt uint64) func(site int, keys []string) {
	if salt == 0 {
		return nil
	}
	return func(site int, keys []string) {
		sort.SliceStable(keys, func(i, j int) bool {
			hi := Mix(Mix(salt, uint64(site)), HashString(keys[i]))
			hj := Mix(Mix(salt, uint64(site)), HashString(keys[j]))
			if hi != hj {
				return hi < hj
			}
			return keys[i] < keys[j]
		})
	}
}

// DrawOrder draws the per-run order salt from the tape and installs it.
func DrawOrder(t *Tape) uint64 {
	salt := uint64(t.Choose(1<<16, "map-order-salt"))
	InstallOrder(salt)
	return salt
}

func UninstallOrder() { simrt.OrderFn = nil }
