package kernel

import (
	"context"
	"fmt"
	"sort"
	"sync"
	"time"
)

// Violation is one oracle failure.  Class is the oracle that failed; Sig holds
// the minimal facts that identify *which* failure it is (used to match known
// findings and to keep the class stable during minimisation).
type Violation struct {
	Class string `json:"class"`
	Sig   string `json:"sig"`
	Msg   string `json:"msg"`
}

func (v Violation) Key() string { return v.Class + "|" + v.Sig }

// Env is the per-run environment shared by all simulator objects.
type Env struct {
	Tape *Tape
	K1   *K1 // nil: sequential driver (operations run inline)

	mu      sync.Mutex
	hist    []string
	histCap int
	seq     int
	sig     uint64
	inbox   []inboxItem
	misuse  []string

	Faults map[string]int
	Probes map[string]int
	Viol   []Violation

	Interleaved bool          // ≥2 tasks had operations pending together at some point
	SimTime     time.Duration // fake-clock time covered (K1)
}

type inboxItem struct {
	seq  int
	key  string
	line string
}

func NewEnv(t *Tape) *Env {
	return &Env{Tape: t, Faults: map[string]int{}, Probes: map[string]int{}, histCap: 4000}
}

// Fault counts one actually fired fault of the given kind.
func (e *Env) Fault(kind string) {
	e.mu.Lock()
	e.Faults[kind]++
	e.mu.Unlock()
}

// Probe counts a rare-branch reach probe.
func (e *Env) Probe(name string) {
	e.mu.Lock()
	e.Probes[name]++
	e.mu.Unlock()
}

// Misuse records that a simulator object was used in a way only a stray
// goroutine of the code under test can cause; it becomes a violation.
func (e *Env) Misuse(what string) {
	e.mu.Lock()
	if len(e.misuse) < 4 {
		e.misuse = append(e.misuse, what)
	}
	e.mu.Unlock()
}

func (e *Env) Violate(class, sig, format string, a ...any) {
	e.mu.Lock()
	e.Viol = append(e.Viol, Violation{Class: class, Sig: sig, Msg: fmt.Sprintf(format, a...)})
	e.mu.Unlock()
}

// appendHist is called by the root (K1) or inline (SEQ) only.
func (e *Env) appendHist(line string) {
	e.seq++
	e.sig = Mix(e.sig, HashString(line))
	if len(e.hist) < e.histCap {
		e.hist = append(e.hist, fmt.Sprintf("%04d %s", e.seq, line))
	}
}

// Log records a history line.  Under K1 the line goes to the inbox and is
// ordered deterministically by the root at the next quiescence.
func (e *Env) Log(who, format string, a ...any) {
	line := who + " " + fmt.Sprintf(format, a...)
	e.mu.Lock()
	defer e.mu.Unlock()
	if e.K1 == nil {
		e.appendHist(line)
		return
	}
	e.inbox = append(e.inbox, inboxItem{seq: 1 << 30, key: who, line: line})
}

// drain moves the inbox into the history in a deterministic order
// (released operations by release number, everything else by name, stable).
func (e *Env) drain() {
	e.mu.Lock()
	defer e.mu.Unlock()
	sort.SliceStable(e.inbox, func(i, j int) bool {
		if e.inbox[i].seq != e.inbox[j].seq {
			return e.inbox[i].seq < e.inbox[j].seq
		}
		return e.inbox[i].key < e.inbox[j].key
	})
	for _, it := range e.inbox {
		e.appendHist(it.line)
	}
	e.inbox = e.inbox[:0]
}

func (e *Env) History() []string {
	if e.K1 != nil {
		e.drain()
	}
	return e.hist
}

func (e *Env) Signature() uint64 { return e.sig }

// Op is one operation on a simulator object.
type Op struct {
	env         *Env
	Obj         string
	Kind        string
	decide      func(*Tape)
	release     chan struct{}
	released    bool
	cancellable bool
	// Urgent operations are instantaneous in reality (Close): fake time never
	// passes while one is parked.
	Urgent bool
	relSeq int
	task   string
}

// Begin announces an operation on a simulator object.  decide draws whatever
// the operation needs from the tape; under K1 it runs on the scheduler
// goroutine immediately before the operation is released, under SEQ inline.
// It returns nil if ctx ended before the scheduler released the operation.
func (e *Env) Begin(obj, kind string, ctx context.Context, decide func(*Tape)) *Op {
	return e.begin(obj, kind, ctx, decide, false)
}

// BeginUrgent is Begin for operations during which no fake time may pass.
func (e *Env) BeginUrgent(obj, kind string, decide func(*Tape)) *Op {
	return e.begin(obj, kind, nil, decide, true)
}

func (e *Env) begin(obj, kind string, ctx context.Context, decide func(*Tape), urgent bool) *Op {
	o := &Op{env: e, Obj: obj, Kind: kind, decide: decide, Urgent: urgent}
	if e.K1 == nil {
		if decide != nil {
			decide(e.Tape)
		}
		return o
	}
	return e.K1.park(o, ctx)
}

// End records the outcome of the operation in the history.
func (o *Op) End(format string, a ...any) {
	line := fmt.Sprintf("%s.%s → ", o.Obj, o.Kind) + fmt.Sprintf(format, a...)
	e := o.env
	e.mu.Lock()
	defer e.mu.Unlock()
	if e.K1 == nil {
		e.appendHist(line)
		return
	}
	e.inbox = append(e.inbox, inboxItem{seq: o.relSeq, key: o.Obj, line: line})
}
