// Package kernel is the deterministic simulator: tape, history, scripted
// streams, the K1 (synctest bubble) and K2 (race-visible exclusive) schedulers,
// the worker loop, tape minimisation, evidence and known-findings handling.
package kernel

import "fmt"

// Tape is the single source of every decision of a run.  In generation mode
// values come from a SplitMix64 stream and are recorded; in replay mode the
// recorded values are returned (0 once exhausted — option 0 is always the
// benign choice).
type Tape struct {
	state  uint64
	Rec    []uint32
	pos    int
	replay bool
	Benign bool // settle mode: every choice is 0 and nothing is recorded
	Draws  int
}

func NewTape(seed uint64) *Tape { return &Tape{state: seed*0x9E3779B97F4A7C15 + 0x1234567} }

func ReplayTape(rec []uint32) *Tape {
	return &Tape{Rec: append([]uint32(nil), rec...), replay: true}
}

func (t *Tape) next() uint64 {
	t.state += 0x9E3779B97F4A7C15
	z := t.state
	z = (z ^ (z >> 30)) * 0xBF58476D1CE4E5B9
	z = (z ^ (z >> 27)) * 0x94D049BB133111EB
	return z ^ (z >> 31)
}

// Choose returns a value in [0,n).  n<=1 returns 0 without consuming tape.
func (t *Tape) Choose(n int, label string) int {
	if n <= 1 {
		return 0
	}
	if t.Benign {
		return 0
	}
	t.Draws++
	if t.replay {
		if t.pos >= len(t.Rec) {
			return 0
		}
		v := int(t.Rec[t.pos])
		t.pos++
		if v >= n {
			v = v % n
		}
		return v
	}
	v := int(t.next() % uint64(n))
	t.Rec = append(t.Rec, uint32(v))
	return v
}

// Bool is true with probability 1/oneIn (false is the benign value 0).
func (t *Tape) Bool(oneIn int, label string) bool {
	if oneIn <= 1 {
		return t.Choose(2, label) == 1
	}
	return t.Choose(oneIn, label) == oneIn-1
}

// Range returns lo..hi inclusive.
func (t *Tape) Range(lo, hi int, label string) int {
	if hi <= lo {
		return lo
	}
	return lo + t.Choose(hi-lo+1, label)
}

// Pick picks one of the given weights' indices; index 0 is the benign one.
func (t *Tape) Weighted(label string, weights ...int) int {
	total := 0
	for _, w := range weights {
		total += w
	}
	v := t.Choose(total, label)
	for i, w := range weights {
		if v < w {
			return i
		}
		v -= w
	}
	return 0
}

// Bytes draws n bytes from the alphabet.
func (t *Tape) Bytes(n int, alphabet []byte, label string) []byte {
	b := make([]byte, n)
	for i := range b {
		b[i] = alphabet[t.Choose(len(alphabet), label)]
	}
	return b
}

// Perm returns a permutation of 0..n-1.
func (t *Tape) Perm(n int, label string) []int {
	p := make([]int, n)
	for i := range p {
		p[i] = i
	}
	for i := n - 1; i > 0; i-- {
		j := t.Choose(i+1, label)
		// j==0 benign means "swap with first"; use i-j so that 0 keeps identity
		j = i - j
		p[i], p[j] = p[j], p[i]
	}
	return p
}

func (t *Tape) Snapshot() []uint32 { return append([]uint32(nil), t.Rec...) }

func (t *Tape) String() string { return fmt.Sprintf("tape(len=%d pos=%d)", len(t.Rec), t.pos) }

// Mix is a stateless 64-bit hash used for order salts.
func Mix(a, b uint64) uint64 {
	z := a ^ (b+0x9E3779B97F4A7C15)*0xBF58476D1CE4E5B9
	z = (z ^ (z >> 30)) * 0xBF58476D1CE4E5B9
	z = (z ^ (z >> 27)) * 0x94D049BB133111EB
	return z ^ (z >> 31)
}

func HashString(s string) uint64 {
	h := uint64(14695981039346656037)
	for i := 0; i < len(s); i++ {
		h ^= uint64(s[i])
		h *= 1099511628211
	}
	return h
}
