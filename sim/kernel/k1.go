package kernel

import (
	"context"
	"fmt"
	"runtime"
	"sort"
	"strings"
	"testing"
	"testing/synctest"
	"time"
)

// K1 is the bubble scheduler: it runs inside a testing/synctest bubble (fake
// clock, quiescence detection).  Every operation on a simulator object parks
// its goroutine; at quiescence the root picks one parked operation by tape and
// releases it, or moves the fake clock.  Goroutines started by the library
// under test are not registered: they run until they block on a pipe or on a
// simulator object, which quiescence detects.
type K1 struct {
	env        *Env
	pending    []*Op
	live       int
	relSeq     int
	start      time.Time
	wake       chan struct{} // poked whenever an operation parks or a task ends
	activeTime time.Duration

	Steps    int
	MaxSteps int
	// AdvanceOneIn: at a step with pending operations the clock is moved with
	// probability 1/AdvanceOneIn (0 = never while operations are pending).
	AdvanceOneIn int
	// AllowAdvance, if set, says whether fake time may pass right now although
	// a non-cancellable operation is parked.
	AllowAdvance func() bool
	// Instants are offsets from the start of the run that the clock likes to
	// jump just before / exactly to / just after.
	Instants []time.Duration
	// StepHook runs on the root at every scheduling step (e.g. "cancel the
	// parent context at step k").
	StepHook func(step int) (acted bool)

	Stuck   bool // tasks alive, nothing parked, no timer ever fires
	Overrun bool // MaxSteps exceeded (infrastructure, not a violation)
	Settle  bool
}

// RunBubble runs body inside a fresh bubble with a K1 attached to env and
// recovers the end-of-bubble deadlock panic (blocked goroutines remain), which
// it reports through the returned string.
func RunBubble(t *testing.T, env *Env, body func(k *K1)) (deadlock string) {
	defer func() {
		if r := recover(); r != nil {
			s := fmt.Sprint(r)
			if strings.Contains(s, "deadlock") {
				deadlock = s
				return
			}
			panic(r)
		}
	}()
	synctest.Test(t, func(t *testing.T) {
		k := &K1{env: env, MaxSteps: 20000, start: time.Now(), wake: make(chan struct{}, 1)}
		env.K1 = k
		body(k)
		env.SimTime = time.Since(k.start)
		if k.activeTime > 0 {
			env.SimTime = k.activeTime // without the settling phase (which lets every timer fire: days of fake time)
		}
	})
	return ""
}

// Now is the fake-clock offset since the start of the run.
func (k *K1) Now() time.Duration { return time.Since(k.start) }

// Start is the fake-clock instant at which the run began.
func (k *K1) Start() time.Time { return k.start }

// Go starts a registered task inside the bubble.
func (k *K1) Go(name string, fn func()) {
	k.env.mu.Lock()
	k.live++
	k.env.mu.Unlock()
	go func() {
		defer func() {
			k.env.mu.Lock()
			k.live--
			k.env.mu.Unlock()
			k.poke()
		}()
		fn()
	}()
}

func (k *K1) park(o *Op, ctx context.Context) *Op {
	e := k.env
	o.release = make(chan struct{})
	o.cancellable = ctx != nil
	e.mu.Lock()
	k.pending = append(k.pending, o)
	e.mu.Unlock()
	k.poke()
	var done <-chan struct{}
	if ctx != nil {
		done = ctx.Done()
	}
	select {
	case <-o.release:
		return o
	case <-done:
		e.mu.Lock()
		defer e.mu.Unlock()
		if o.released {
			return o
		}
		for i, p := range k.pending {
			if p == o {
				k.pending = append(k.pending[:i], k.pending[i+1:]...)
				break
			}
		}
		e.inbox = append(e.inbox, inboxItem{seq: 1 << 29, key: o.Obj, line: fmt.Sprintf("%s.%s → abandoned: context ended while parked", o.Obj, o.Kind)})
		return nil
	}
}

func (k *K1) snapshot() (ops []*Op, live int) {
	e := k.env
	e.mu.Lock()
	ops = append(ops, k.pending...)
	live = k.live
	e.mu.Unlock()
	sort.SliceStable(ops, func(i, j int) bool {
		if ops[i].Obj != ops[j].Obj {
			return ops[i].Obj < ops[j].Obj
		}
		return ops[i].Kind < ops[j].Kind
	})
	return
}

// Run drives the bubble until every registered task has ended and nothing is
// parked (or the run is stuck / too long).
func (k *K1) Run() {
	e := k.env
	idle := 0
	for {
		synctest.Wait()
		e.drain()
		ops, live := k.snapshot()
		if len(ops) == 0 && live == 0 {
			return
		}
		if k.Steps >= k.MaxSteps {
			k.Overrun = true
			return
		}
		k.Steps++
		if k.StepHook != nil && !k.Settle {
			if k.StepHook(k.Steps) {
				// the hook changed the world (e.g. cancelled a context): let it settle first
				continue
			}
		}
		if len(ops) == 0 {
			// only a timer (or nothing at all) can make progress
			if idle >= 3 {
				k.Stuck = true
				return
			}
			idle++
			if k.sleep(time.Hour) {
				idle = 0
			}
			continue
		}
		idle = 0
		if len(ops) >= 2 {
			e.Interleaved = true
		}
		if !k.Settle && k.AdvanceOneIn > 0 && k.mayAdvance(ops) && e.Tape.Bool(k.AdvanceOneIn, "advance?") {
			d := k.chooseAdvance()
			e.appendHist(fmt.Sprintf("clock +%v", d))
			e.Fault("clock-advance")
			k.sleep(d)
			continue
		}
		o := ops[e.Tape.Choose(len(ops), "next")]
		if o.decide != nil {
			o.decide(e.Tape)
		}
		e.mu.Lock()
		for i, p := range k.pending {
			if p == o {
				k.pending = append(k.pending[:i], k.pending[i+1:]...)
				break
			}
		}
		o.released = true
		k.relSeq++
		o.relSeq = k.relSeq
		e.mu.Unlock()
		close(o.release)
	}
}

func (k *K1) poke() {
	select {
	case k.wake <- struct{}{}:
	default:
	}
}

// sleep lets fake time pass for at most d, but returns as soon as anything
// new parks or a task ends (so that the simulator never charges fake time to
// code that is ready to run).  Reports whether it was interrupted.
func (k *K1) sleep(d time.Duration) bool {
	select {
	case <-k.wake:
	default:
	}
	tm := time.NewTimer(d)
	defer tm.Stop()
	select {
	case <-k.wake:
		return true
	case <-tm.C:
		return false
	}
}

func (k *K1) mayAdvance(ops []*Op) bool {
	all := true
	for _, o := range ops {
		if o.Urgent {
			return false
		}
		if !o.cancellable {
			all = false
		}
	}
	if all {
		return true
	}
	return k.AllowAdvance != nil && k.AllowAdvance()
}

func (k *K1) chooseAdvance() time.Duration {
	now := k.Now()
	menu := []time.Duration{time.Millisecond, time.Second}
	for _, in := range k.Instants {
		if in > now {
			d := in - now
			if d > 1 {
				menu = append(menu, d-1)
			}
			menu = append(menu, d, d+1)
			break
		}
	}
	return menu[k.env.Tape.Choose(len(menu), "advance-by")]
}

// AddInstant registers an interesting instant (offset from run start), kept sorted.
func (k *K1) AddInstant(d time.Duration) {
	k.Instants = append(k.Instants, d)
	sort.Slice(k.Instants, func(i, j int) bool { return k.Instants[i] < k.Instants[j] })
}

// SettleAll releases everything that is still parked with benign decisions,
// lets every timer fire, and waits for quiescence.
func (k *K1) SettleAll() {
	if k.activeTime == 0 {
		k.activeTime = k.Now() + 1
	}
	k.Settle = true
	save := k.env.Tape.Benign
	k.env.Tape.Benign = true
	k.Run()
	for i := 0; i < 8; i++ {
		if !k.sleep(24 * time.Hour) {
			break
		}
		k.Run()
	}
	synctest.Wait()
	k.Run()
	k.env.Tape.Benign = save
	k.env.drain()
}

// LeakedGoroutines returns the stacks of goroutines of the current bubble
// that have a frame whose function name contains one of the given substrings.
// Call at quiescence from the root.
func LeakedGoroutines(match ...string) []string {
	buf := make([]byte, 1<<20)
	for {
		n := runtime.Stack(buf, true)
		if n < len(buf) {
			buf = buf[:n]
			break
		}
		buf = make([]byte, 2*len(buf))
	}
	var out []string
	gs := strings.Split(string(buf), "\n\n")
	// the first goroutine printed is the caller: its bubble is ours
	mine := bubbleTag(gs[0])
	if mine == "" {
		return nil
	}
	for _, g := range gs[1:] {
		if bubbleTag(g) != mine {
			continue
		}
		for _, m := range match {
			if strings.Contains(g, m) {
				out = append(out, g)
				break
			}
		}
	}
	return out
}

func bubbleTag(g string) string {
	head, _, _ := strings.Cut(g, "\n")
	i := strings.Index(head, "synctest bubble ")
	if i < 0 {
		return ""
	}
	tag := head[i:]
	if j := strings.IndexAny(tag, ",]"); j >= 0 {
		tag = tag[:j]
	}
	return tag
}
