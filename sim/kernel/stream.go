package kernel

import (
	"context"
	"errors"
	"fmt"
	"io"
	"sync/atomic"
)

// ErrInjected is the root of every injected stream error.
type InjectedError struct {
	What      string
	Transient bool // the one-off failure of a stream with TransientErrAt set
}

func (e *InjectedError) Error() string { return "injected: " + e.What }

// IsTransient reports whether err is the one-off failure of a stream with TransientErrAt set.
func IsTransient(err error) bool {
	var ie *InjectedError
	return errors.As(err, &ie) && ie.Transient
}

func IsInjected(err error) bool {
	var ie *InjectedError
	return errors.As(err, &ie)
}

var ErrReadAfterClose = errors.New("sim stream: read after close")

// Chunk modes of a Stream.
const (
	ChunkWhole  = iota // as much as the caller's buffer takes
	ChunkOne           // one byte per read
	ChunkFixed         // FixedChunk bytes per read
	ChunkRandom        // tape-chosen per read: 1, 2..7, or whole
)

// Stream is a scripted io.ReadCloser: content prefix + exactly one terminal
// condition (io.EOF or an injected error), delivered either with the last
// chunk or on its own, sticky afterwards.
type Stream struct {
	Env  *Env
	Name string
	// Tag is appended to the fault kinds this stream reports ("read-error@file").
	Tag  string
	Data []byte
	// Term is the terminal condition (nil means io.EOF).
	Term error
	// TermWithData delivers the terminal condition together with the last
	// chunk (only when at least one byte is delivered by that read).
	TermWithData bool
	ChunkMode    int
	FixedChunk   int
	// FirstChunk, if >0, caps the first non-empty read (e.g. shorter than a
	// sniffing window).
	FirstChunk int
	// ZeroReads is the budget of (0,nil) reads; each is inserted by tape.
	ZeroReads int
	// StallAt: a read starting at this offset blocks until Ctx ends (K1 only;
	// -1 = never).  Requires Ctx.
	StallAt int
	Ctx     context.Context
	// TransientErrAt: the read that starts at this offset fails once with a
	// *transient* injected error and delivers nothing; later reads carry on
	// with the data (-1 = never).  io.Reader allows this; iotest.TimeoutReader
	// does it.
	TransientErrAt     int
	TransientDelivered bool
	// ErrOnce: a terminal error (not io.EOF) is reported by one read only; reads after it report io.EOF, as
	// readers that verify or decode on the fly do (io.Reader does not require errors to be sticky).
	ErrOnce bool
	// CloseErr is returned by Close.
	CloseErr error
	// Cancellable makes parked reads give up when Ctx ends (response bodies).
	Cancellable bool

	Pos               int
	TermDelivered     bool
	SawEOFByRead      bool // a read returned io.EOF (alone or with data)
	Closed            int
	ReadsAfterClose   int
	Reads             int
	PosAtFirstClose   int
	TermBeforeClose   bool // the terminal condition had been delivered when the first Close arrived
	CtxErrBeforeClose bool // a read had ended with the context's error before the first Close
	ZeroReadDelivered bool
	CtxErrDelivered   bool
	firstDone         bool
	busy              int32
	nilBuf            bool
}

func NewStream(env *Env, name string, data []byte) *Stream {
	return &Stream{Env: env, Name: name, Data: data, StallAt: -1, TransientErrAt: -1}
}

func (s *Stream) tag() string {
	if s.Tag == "" {
		return ""
	}
	return "@" + s.Tag
}

func (s *Stream) term() error {
	if s.Term == nil {
		return io.EOF
	}
	return s.Term
}

func (s *Stream) opCtx() context.Context {
	if s.Cancellable {
		return s.Ctx
	}
	return nil
}

// Remaining bytes not yet delivered.
func (s *Stream) Remaining() int { return len(s.Data) - s.Pos }

// enter detects two operations on the stream at once under the sequential
// driver, where the harness itself is a single goroutine: the second one can
// only come from a goroutine started by the code under test.
func (s *Stream) enter(what string) bool {
	if s.Env.K1 != nil {
		return true
	}
	if !atomic.CompareAndSwapInt32(&s.busy, 0, 1) {
		s.Env.Misuse("stream " + s.Name + ": " + what + " while another operation on the same stream is in progress (a goroutine started by the code under test is using it)")
		return false
	}
	return true
}

func (s *Stream) leave() {
	if s.Env.K1 == nil {
		atomic.StoreInt32(&s.busy, 0)
	}
}

func (s *Stream) Read(p []byte) (int, error) {
	if !s.enter("Read") {
		return 0, &InjectedError{What: "concurrent use of the stream"}
	}
	defer s.leave()
	var (
		n         int
		err       error
		stall     bool
		zero      bool
		transient bool
	)
	op := s.Env.Begin(s.Name, "read", s.opCtx(), func(t *Tape) {
		if s.Closed > 0 {
			return
		}
		if len(p) == 0 {
			return
		}
		if s.StallAt >= 0 && s.Pos == s.StallAt && !s.TermDelivered {
			stall = true
			return
		}
		rem := s.Remaining()
		if s.TransientErrAt >= 0 && s.Pos == s.TransientErrAt && !s.TransientDelivered && !s.TermDelivered {
			transient = true
			return
		}
		if rem == 0 || s.TermDelivered {
			return
		}
		if s.ZeroReads > 0 && t.Bool(4, "zero-read?") {
			s.ZeroReads--
			zero = true
			return
		}
		n = rem
		if n > len(p) {
			n = len(p)
		}
		switch s.ChunkMode {
		case ChunkOne:
			n = 1
		case ChunkFixed:
			if s.FixedChunk > 0 && n > s.FixedChunk {
				n = s.FixedChunk
			}
		case ChunkRandom:
			switch t.Choose(3, "chunk") {
			case 1:
				n = 1
			case 2:
				if c := 2 + t.Choose(6, "chunk-small"); n > c {
					n = c
				}
			}
		}
		if !s.firstDone && s.FirstChunk > 0 && n > s.FirstChunk {
			n = s.FirstChunk
		}
		// no read crosses the offset of a pending transient error: whoever reads that far meets it
		if s.TransientErrAt > s.Pos && !s.TransientDelivered && s.Pos+n > s.TransientErrAt {
			n = s.TransientErrAt - s.Pos
		}
	})
	if op == nil {
		// context ended while parked
		s.CtxErrDelivered = true
		s.Env.Log(s.Name, "read → %v (the stream's context has ended)", s.Ctx.Err())
		return 0, s.Ctx.Err()
	}
	s.Reads++
	switch {
	case s.Closed > 0:
		s.ReadsAfterClose++
		op.End("read after close")
		return 0, ErrReadAfterClose
	case len(p) == 0:
		op.End("0 (empty buffer)")
		return 0, nil
	case stall:
		s.Env.Fault("stall" + s.tag())
		op.End("stalls at %d", s.Pos)
		if s.Ctx == nil {
			select {} // never generated
		}
		<-s.Ctx.Done()
		s.CtxErrDelivered = true
		return 0, s.Ctx.Err()
	case transient:
		s.TransientDelivered = true
		s.Env.Fault("transient-read-error" + s.tag())
		op.End("0,transient error at %d", s.Pos)
		return 0, &InjectedError{What: "transient read error (timeout)", Transient: true}
	case zero:
		s.Env.Fault("zero-length-read")
		s.ZeroReadDelivered = true
		op.End("0,nil")
		return 0, nil
	case n == 0:
		// terminal condition on its own (sticky, unless ErrOnce)
		err = s.term()
		if s.ErrOnce && s.TermDelivered && err != io.EOF {
			s.Env.Fault("error-reported-once-then-eof" + s.tag())
			err = io.EOF
		}
		s.deliverTerm(err)
		op.End("0,%v", err)
		return 0, err
	}
	s.firstDone = true
	copy(p, s.Data[s.Pos:s.Pos+n])
	s.Pos += n
	if n < len(p) && s.Pos < len(s.Data) {
		s.Env.Fault("short-read")
	}
	if s.Pos == len(s.Data) && s.TermWithData {
		err = s.term()
		s.deliverTerm(err)
		s.Env.Fault("data+terminal")
		op.End("%d,%v (pos %d)", n, err, s.Pos)
		return n, err
	}
	op.End("%d (pos %d)", n, s.Pos)
	return n, nil
}

func (s *Stream) deliverTerm(err error) {
	if !s.TermDelivered {
		s.TermDelivered = true
		if err != io.EOF {
			s.Env.Fault("read-error" + s.tag())
		}
	}
	if err == io.EOF {
		s.SawEOFByRead = true
	}
}

func (s *Stream) Close() error {
	if !s.enter("Close") {
		return &InjectedError{What: "concurrent use of the stream"}
	}
	defer s.leave()
	op := s.Env.BeginUrgent(s.Name, "close", nil)
	if s.Closed == 0 {
		s.PosAtFirstClose = s.Pos
		s.TermBeforeClose = s.TermDelivered
		s.CtxErrBeforeClose = s.CtxErrDelivered
	}
	s.Closed++
	if s.CloseErr != nil {
		s.Env.Fault("close-error")
	}
	op.End("close #%d err=%v", s.Closed, s.CloseErr)
	return s.CloseErr
}

func (s *Stream) String() string {
	return fmt.Sprintf("%s{len=%d pos=%d term=%v withData=%v closed=%d}", s.Name, len(s.Data), s.Pos, s.term(), s.TermWithData, s.Closed)
}

// ReaderOnly hides Close (and everything else) of a Stream.
type ReaderOnly struct{ S *Stream }

func (r ReaderOnly) Read(p []byte) (int, error) { return r.S.Read(p) }

// Sink is a scripted io.Writer.
type Sink struct {
	Env  *Env
	Name string
	// FailAt: the write that would cross this offset accepts the bytes up to
	// it and returns Err (-1 = never).
	FailAt   int
	Err      error
	Buf      []byte
	Closed   int
	CloseErr error
	Writes   int
}

func NewSink(env *Env, name string) *Sink { return &Sink{Env: env, Name: name, FailAt: -1} }

func (w *Sink) Write(p []byte) (int, error) {
	op := w.Env.Begin(w.Name, "write", nil, nil)
	w.Writes++
	if w.FailAt >= 0 && len(w.Buf)+len(p) > w.FailAt {
		n := w.FailAt - len(w.Buf)
		if n < 0 {
			n = 0
		}
		w.Buf = append(w.Buf, p[:n]...)
		err := w.Err
		if err == nil {
			err = &InjectedError{What: "write error"}
		}
		w.Env.Fault("write-error")
		op.End("%d,%v", n, err)
		return n, err
	}
	w.Buf = append(w.Buf, p...)
	op.End("%d", len(p))
	return len(p), nil
}

// SinkCloser adds Close to a Sink.
type SinkCloser struct{ *Sink }

func (w SinkCloser) Close() error {
	op := w.Env.BeginUrgent(w.Name, "close", nil)
	w.Closed++
	op.End("close #%d", w.Closed)
	return w.CloseErr
}
