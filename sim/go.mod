module verif.local/sim

go 1.26

require (
	github.com/go-openapi/runtime v0.0.0
	verif.local/simrt v0.0.0
)

replace github.com/go-openapi/runtime => ../../var/tmp/placeholder

replace verif.local/simrt => ../simrt
