// Package simrt is the only thing the instrumented scratch copy of
// go-openapi/runtime imports from the simulator.  With nothing attached
// (YieldFn == nil, OrderFn == nil) both entry points are behaviour-neutral:
// Yield returns at once and MapKeys returns the keys in native map order.
package simrt

import (
	"fmt"
	"sort"
)

// YieldFn is installed by the K2 scheduler before tasks are started and
// removed after they have all ended; it is never changed while tasks run.
var YieldFn func(site int)

// Yield marks a preemption point (rewrite R1).
func Yield(site int) {
	if f := YieldFn; f != nil {
		f(site)
	}
}

// LockFn is told about every program Lock (+1) and Unlock (-1) (rewrite R4) so
// that the exclusive scheduler never preempts a task that holds a program lock.
var LockFn func(delta int)

// LockDelta reports a lock-depth change of the calling task.
func LockDelta(delta int) {
	if f := LockFn; f != nil {
		f(delta)
	}
}

// OrderFn, when set, permutes the sorted key texts of one map-range site in
// place.  It must be a pure function of (site, keys) for the duration of a run.
var OrderFn func(site int, keys []string)

// RangeCount counts map ranges executed (reach probe).
var RangeCount uint64

// MapKeys returns the keys of m in the order the simulator decides (rewrite R3).
func MapKeys[M ~map[K]V, K comparable, V any](site int, m M) []K {
	keys := make([]K, 0, len(m))
	for k := range m {
		keys = append(keys, k)
	}
	f := OrderFn
	if f == nil || len(keys) < 2 {
		return keys
	}
	texts := make([]string, len(keys))
	byText := make(map[string]K, len(keys))
	for i, k := range keys {
		var s string
		if ks, ok := any(k).(string); ok {
			s = ks
		} else {
			s = fmt.Sprintf("%v", k)
		}
		texts[i] = s
		byText[s] = k
	}
	if len(byText) != len(keys) { // texts collide: keep native order, never lose a key
		return keys
	}
	sort.Strings(texts)
	f(site, texts)
	out := make([]K, len(texts))
	for i, s := range texts {
		out[i] = byText[s]
	}
	return out
}
