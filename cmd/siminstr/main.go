// siminstr instruments a scratch copy of go-openapi/runtime for the simulator.
//
//	R1  simrt.Yield(site) before every statement of every function body
//	R3  `for k, v := range <map>` iterates in simulator-chosen key order
//	R4  simrt.LockDelta(±1) around Lock/Unlock so the exclusive scheduler never
//	    preempts a task that holds a program lock
//
// It never touches /repo: it is pointed at a copy.  Any trouble exits 2.
package main

import (
	"bytes"
	"encoding/json"
	"flag"
	"fmt"
	"go/ast"
	"go/format"
	"go/token"
	"go/types"
	"os"
	"path/filepath"
	"sort"
	"strings"

	"golang.org/x/tools/go/ast/astutil"
	"golang.org/x/tools/go/packages"
)

type site struct {
	ID   int    `json:"id"`
	Kind string `json:"kind"` // yield | maprange
	Pos  string `json:"pos"`
	Func string `json:"func"`
}

var (
	sites   []site
	fset    *token.FileSet
	rootDir string
)

func fatal(format string, a ...any) {
	fmt.Fprintf(os.Stderr, "siminstr: "+format+"\n", a...)
	os.Exit(2)
}

func newSite(kind string, pos token.Pos, fn string) int {
	p := fset.Position(pos)
	rel, err := filepath.Rel(rootDir, p.Filename)
	if err != nil {
		rel = p.Filename
	}
	id := len(sites) + 1
	sites = append(sites, site{ID: id, Kind: kind, Pos: fmt.Sprintf("%s:%d", rel, p.Line), Func: fn})
	return id
}

func main() {
	dir := flag.String("dir", "", "scratch copy of the runtime module (rewritten in place)")
	simrtDir := flag.String("simrt", "", "path of the simrt module")
	sitesOut := flag.String("sites", "", "where to write the site table (json)")
	noYield := flag.Bool("no-yield", false, "skip R1 (map order only)")
	flag.Parse()
	if *dir == "" || *simrtDir == "" {
		fatal("usage: siminstr -dir <copy> -simrt <simrt module> [-sites out.json]")
	}
	var err error
	rootDir, err = filepath.Abs(*dir)
	if err != nil {
		fatal("%v", err)
	}
	if strings.HasPrefix(rootDir, "/repo") {
		fatal("refusing to rewrite %s", rootDir)
	}
	patterns := []string{".", "./client", "./middleware", "./middleware/denco", "./middleware/header",
		"./middleware/untyped", "./security", "./yamlpc"}
	fset = token.NewFileSet()
	cfg := &packages.Config{
		Mode: packages.NeedName | packages.NeedFiles | packages.NeedCompiledGoFiles | packages.NeedSyntax |
			packages.NeedTypes | packages.NeedTypesInfo | packages.NeedImports | packages.NeedDeps,
		Dir:  rootDir,
		Fset: fset,
		Env:  os.Environ(),
	}
	pkgs, err := packages.Load(cfg, patterns...)
	if err != nil {
		fatal("load: %v", err)
	}
	if packages.PrintErrors(pkgs) > 0 {
		fatal("packages have errors")
	}
	sort.Slice(pkgs, func(i, j int) bool { return pkgs[i].PkgPath < pkgs[j].PkgPath })
	nYield, nRange, nLock := 0, 0, 0
	for _, pkg := range pkgs {
		if len(pkg.Syntax) != len(pkg.CompiledGoFiles) {
			fatal("%s: syntax/files mismatch", pkg.PkgPath)
		}
		for i, file := range pkg.Syntax {
			fn := pkg.CompiledGoFiles[i]
			if strings.HasSuffix(fn, "_test.go") {
				continue
			}
			for _, cg := range file.Comments {
				for _, c := range cg.List {
					if strings.HasPrefix(c.Text, "//go:") || strings.HasPrefix(c.Text, "// +build") {
						fatal("%s: directive %q would be dropped", fn, c.Text)
					}
				}
			}
			rw := &rewriter{info: pkg.TypesInfo, noYield: *noYield}
			rw.file(file)
			nYield += rw.nYield
			nRange += rw.nRange
			nLock += rw.nLock
			if rw.nYield+rw.nRange+rw.nLock == 0 {
				continue
			}
			// go/printer misplaces comments around position-less nodes: drop them
			// (keep nothing after the package clause; there are no directives).
			file.Comments = nil
			file.Doc = nil
			astutil.AddNamedImport(fset, file, "simrt", "verif.local/simrt")
			var buf bytes.Buffer
			if err := format.Node(&buf, fset, file); err != nil {
				fatal("%s: print: %v", fn, err)
			}
			if err := os.WriteFile(fn, buf.Bytes(), 0o644); err != nil {
				fatal("%v", err)
			}
		}
	}
	// go.mod: require + replace
	modPath := filepath.Join(rootDir, "go.mod")
	mod, err := os.ReadFile(modPath)
	if err != nil {
		fatal("%v", err)
	}
	abs, _ := filepath.Abs(*simrtDir)
	mod = append(mod, []byte(fmt.Sprintf("\nrequire verif.local/simrt v0.0.0\n\nreplace verif.local/simrt => %s\n", abs))...)
	if err := os.WriteFile(modPath, mod, 0o644); err != nil {
		fatal("%v", err)
	}
	if *sitesOut != "" {
		b, _ := json.Marshal(sites)
		if err := os.WriteFile(*sitesOut, b, 0o644); err != nil {
			fatal("%v", err)
		}
	}
	fmt.Printf("siminstr: %d yield sites, %d map ranges, %d lock sites\n", nYield, nRange, nLock)
}

type rewriter struct {
	info    *types.Info
	noYield bool
	nYield  int
	nRange  int
	nLock   int
	fn      string
}

func (rw *rewriter) file(f *ast.File) {
	for _, d := range f.Decls {
		fd, ok := d.(*ast.FuncDecl)
		if !ok {
			// package-level var initialisers are not instrumented (R1), but map
			// ranges inside their function literals still are not touched either.
			continue
		}
		if fd.Body == nil {
			continue
		}
		name := fd.Name.Name
		if fd.Recv != nil && len(fd.Recv.List) == 1 {
			name = types.ExprString(fd.Recv.List[0].Type) + "." + name
		}
		rw.fn = name
		yield := !rw.noYield && fd.Name.Name != "init" && !callsLock(fd.Body)
		rw.block(fd.Body, yield)
	}
}

func lockMethod(call *ast.CallExpr) string {
	sel, ok := call.Fun.(*ast.SelectorExpr)
	if !ok || len(call.Args) != 0 {
		return ""
	}
	switch sel.Sel.Name {
	case "Lock", "RLock", "Unlock", "RUnlock":
		return sel.Sel.Name
	}
	return ""
}

// isOnceDo reports whether call is (*sync.Once).Do.
func (rw *rewriter) isOnceDo(call *ast.CallExpr) bool {
	sel, ok := call.Fun.(*ast.SelectorExpr)
	if !ok || sel.Sel.Name != "Do" || len(call.Args) != 1 {
		return false
	}
	t := rw.info.TypeOf(sel.X)
	if t == nil {
		return false
	}
	if p, ok := t.(*types.Pointer); ok {
		t = p.Elem()
	}
	n, ok := t.(*types.Named)
	return ok && n.Obj().Pkg() != nil && n.Obj().Pkg().Path() == "sync" && n.Obj().Name() == "Once"
}

func callsLock(n ast.Node) bool {
	found := false
	ast.Inspect(n, func(n ast.Node) bool {
		if c, ok := n.(*ast.CallExpr); ok {
			if m := lockMethod(c); m == "Lock" || m == "RLock" {
				found = true
			}
		}
		return !found
	})
	return found
}

func simCall(name string, args ...ast.Expr) *ast.ExprStmt {
	return &ast.ExprStmt{X: &ast.CallExpr{
		Fun:  &ast.SelectorExpr{X: ast.NewIdent("simrt"), Sel: ast.NewIdent(name)},
		Args: args,
	}}
}

func intLit(n int) ast.Expr { return &ast.BasicLit{Kind: token.INT, Value: fmt.Sprint(n)} }

// block rewrites a block in place.
func (rw *rewriter) block(b *ast.BlockStmt, yield bool) {
	if b == nil {
		return
	}
	b.List = rw.stmts(b.List, yield)
}

func (rw *rewriter) stmts(list []ast.Stmt, yield bool) []ast.Stmt {
	out := make([]ast.Stmt, 0, 2*len(list))
	for _, s := range list {
		pos := s.Pos()
		pre, repl, post := rw.stmt(s, yield)
		if yield {
			out = append(out, simCall("Yield", intLit(newSite("yield", pos, rw.fn))))
			rw.nYield++
		}
		out = append(out, pre...)
		out = append(out, repl)
		out = append(out, post...)
	}
	return out
}

// stmt rewrites one statement; it may ask for statements before/after it.
func (rw *rewriter) stmt(s ast.Stmt, yield bool) (pre []ast.Stmt, repl ast.Stmt, post []ast.Stmt) {
	repl = s
	switch s := s.(type) {
	case *ast.BlockStmt:
		rw.block(s, yield)
	case *ast.IfStmt:
		rw.exprsIn(s.Init, yield)
		rw.expr(s.Cond, yield)
		rw.block(s.Body, yield)
		if s.Else != nil {
			switch e := s.Else.(type) {
			case *ast.BlockStmt:
				rw.block(e, yield)
			case *ast.IfStmt:
				_, r, _ := rw.stmt(e, yield)
				s.Else = r
			}
		}
	case *ast.ForStmt:
		rw.exprsIn(s.Init, yield)
		rw.expr(s.Cond, yield)
		rw.exprsIn(s.Post, yield)
		rw.block(s.Body, yield)
	case *ast.RangeStmt:
		rw.expr(s.X, yield)
		rw.block(s.Body, yield)
		if r := rw.mapRange(s, nil); r != nil {
			repl = r
		}
	case *ast.LabeledStmt:
		if rs, ok := s.Stmt.(*ast.RangeStmt); ok {
			rw.expr(rs.X, yield)
			rw.block(rs.Body, yield)
			if r := rw.mapRange(rs, s); r != nil {
				repl = r
			}
		} else {
			p, r, q := rw.stmt(s.Stmt, yield)
			if len(p) > 0 || len(q) > 0 {
				// keep the label on the statement itself
				blk := &ast.BlockStmt{List: append(append(p, r), q...)}
				s.Stmt = blk
			} else {
				s.Stmt = r
			}
		}
	case *ast.SwitchStmt:
		rw.exprsIn(s.Init, yield)
		rw.expr(s.Tag, yield)
		rw.clauses(s.Body, yield)
	case *ast.TypeSwitchStmt:
		rw.exprsIn(s.Init, yield)
		rw.exprsIn(s.Assign, yield)
		rw.clauses(s.Body, yield)
	case *ast.SelectStmt:
		rw.clauses(s.Body, yield)
	case *ast.ExprStmt:
		rw.expr(s.X, yield)
		if c, ok := s.X.(*ast.CallExpr); ok {
			if rw.isOnceDo(c) {
				// whatever runs inside sync.Once.Do runs with the Once's mutex held, however the function is spelled
				// (literal, method value, named function): no preemption in there, or a second caller blocks for good
				pre = append(pre, simCall("LockDelta", intLit(1)))
				post = append(post, simCall("LockDelta", intLit(-1)))
				rw.nLock++
			}
			switch lockMethod(c) {
			case "Lock", "RLock":
				post = append(post, simCall("LockDelta", intLit(1)))
				rw.nLock++
			case "Unlock", "RUnlock":
				pre = append(pre, simCall("LockDelta", intLit(-1)))
				rw.nLock++
			}
		}
	case *ast.DeferStmt:
		rw.call(s.Call, yield, true)
		if m := lockMethod(s.Call); m == "Unlock" || m == "RUnlock" {
			// runs first (LIFO), immediately before the deferred Unlock
			post = append(post, &ast.DeferStmt{Call: simCall("LockDelta", intLit(-1)).X.(*ast.CallExpr)})
			rw.nLock++
		}
	case *ast.GoStmt:
		rw.call(s.Call, yield, true)
	default:
		rw.exprsIn(s, yield)
	}
	return
}

func (rw *rewriter) clauses(body *ast.BlockStmt, yield bool) {
	if body == nil {
		return
	}
	for _, c := range body.List {
		switch c := c.(type) {
		case *ast.CaseClause:
			for _, e := range c.List {
				rw.expr(e, yield)
			}
			c.Body = rw.stmts(c.Body, yield)
		case *ast.CommClause:
			rw.exprsIn(c.Comm, yield)
			c.Body = rw.stmts(c.Body, yield)
		}
	}
}

// exprsIn visits the expressions of a simple statement (assign, decl, return, send, incdec ...).
func (rw *rewriter) exprsIn(s ast.Stmt, yield bool) {
	if s == nil {
		return
	}
	switch s := s.(type) {
	case *ast.AssignStmt:
		for _, e := range s.Lhs {
			rw.expr(e, yield)
		}
		for _, e := range s.Rhs {
			rw.expr(e, yield)
		}
	case *ast.ReturnStmt:
		for _, e := range s.Results {
			rw.expr(e, yield)
		}
	case *ast.ExprStmt:
		rw.expr(s.X, yield)
	case *ast.SendStmt:
		rw.expr(s.Chan, yield)
		rw.expr(s.Value, yield)
	case *ast.IncDecStmt:
		rw.expr(s.X, yield)
	case *ast.DeclStmt:
		if gd, ok := s.Decl.(*ast.GenDecl); ok {
			for _, sp := range gd.Specs {
				if vs, ok := sp.(*ast.ValueSpec); ok {
					for _, e := range vs.Values {
						rw.expr(e, yield)
					}
				}
			}
		}
	}
}

// expr finds function literals inside an expression and instruments their
// bodies.  A literal passed as an *argument of a real call* may run under the
// callee's lock or on a foreign goroutine and gets no yields (map ranges and
// lock bookkeeping are still rewritten).
func (rw *rewriter) expr(e ast.Expr, yield bool) {
	if e == nil {
		return
	}
	switch e := e.(type) {
	case *ast.FuncLit:
		rw.funcLit(e, yield)
	case *ast.CallExpr:
		rw.call(e, yield, false)
	case *ast.ParenExpr:
		rw.expr(e.X, yield)
	case *ast.UnaryExpr:
		rw.expr(e.X, yield)
	case *ast.BinaryExpr:
		rw.expr(e.X, yield)
		rw.expr(e.Y, yield)
	case *ast.StarExpr:
		rw.expr(e.X, yield)
	case *ast.SelectorExpr:
		rw.expr(e.X, yield)
	case *ast.IndexExpr:
		rw.expr(e.X, yield)
		rw.expr(e.Index, yield)
	case *ast.SliceExpr:
		rw.expr(e.X, yield)
		rw.expr(e.Low, yield)
		rw.expr(e.High, yield)
		rw.expr(e.Max, yield)
	case *ast.TypeAssertExpr:
		rw.expr(e.X, yield)
	case *ast.KeyValueExpr:
		rw.expr(e.Key, yield)
		rw.expr(e.Value, yield)
	case *ast.CompositeLit:
		for _, el := range e.Elts {
			rw.expr(el, yield)
		}
	}
}

func (rw *rewriter) funcLit(fl *ast.FuncLit, yield bool) {
	save := rw.fn
	rw.fn = save + ".func"
	y := yield && !rw.noYield && !callsLock(fl.Body)
	rw.block(fl.Body, y)
	rw.fn = save
}

// call: direct=true for `go f()` / `defer f()` where the literal in Fun position
// runs as a normal function of this program.
func (rw *rewriter) call(c *ast.CallExpr, yield bool, direct bool) {
	isConversion := false
	if tv, ok := rw.info.Types[c.Fun]; ok && tv.IsType() {
		isConversion = true
	}
	switch f := c.Fun.(type) {
	case *ast.FuncLit:
		rw.funcLit(f, yield) // func(){...}() — runs here (or as a goroutine of the program)
	default:
		rw.expr(c.Fun, yield)
	}
	for _, a := range c.Args {
		if fl, ok := a.(*ast.FuncLit); ok && !isConversion {
			rw.funcLit(fl, false)
			continue
		}
		rw.expr(a, yield)
	}
	_ = direct
}

var tmpN int

// mapRange rewrites a range over a map; returns nil if rs does not range over a map.
func (rw *rewriter) mapRange(rs *ast.RangeStmt, label *ast.LabeledStmt) ast.Stmt {
	t := rw.info.TypeOf(rs.X)
	if t == nil {
		fatal("no type for range expression at %s", fset.Position(rs.Pos()))
	}
	if _, ok := t.Underlying().(*types.Map); !ok {
		return nil
	}
	rw.nRange++
	tmpN++
	id := newSite("maprange", rs.Pos(), rw.fn)
	mName := fmt.Sprintf("_simm%d", tmpN)
	kName := fmt.Sprintf("_simk%d", tmpN)
	vName := fmt.Sprintf("_simv%d", tmpN)
	okName := fmt.Sprintf("_simok%d", tmpN)

	isBlank := func(e ast.Expr) bool {
		if e == nil {
			return true
		}
		id, ok := e.(*ast.Ident)
		return ok && id.Name == "_"
	}
	var head []ast.Stmt
	// _simv, _simok := _simm[_simk]; if !_simok { continue }
	valLhs := ast.Expr(ast.NewIdent("_"))
	if !isBlank(rs.Value) {
		valLhs = ast.NewIdent(vName)
	}
	head = append(head,
		&ast.AssignStmt{
			Lhs: []ast.Expr{valLhs, ast.NewIdent(okName)},
			Tok: token.DEFINE,
			Rhs: []ast.Expr{&ast.IndexExpr{X: ast.NewIdent(mName), Index: ast.NewIdent(kName)}},
		},
		&ast.IfStmt{
			Cond: &ast.UnaryExpr{Op: token.NOT, X: ast.NewIdent(okName)},
			Body: &ast.BlockStmt{List: []ast.Stmt{&ast.BranchStmt{Tok: token.CONTINUE}}},
		},
	)
	tok := rs.Tok
	if tok == token.ILLEGAL { // `for range m`
		tok = token.DEFINE
	}
	if !isBlank(rs.Key) {
		head = append(head, &ast.AssignStmt{Lhs: []ast.Expr{rs.Key}, Tok: tok, Rhs: []ast.Expr{ast.NewIdent(kName)}})
	}
	if !isBlank(rs.Value) {
		head = append(head, &ast.AssignStmt{Lhs: []ast.Expr{rs.Value}, Tok: tok, Rhs: []ast.Expr{ast.NewIdent(vName)}})
	}
	body := &ast.BlockStmt{List: append(head, rs.Body.List...)}
	loop := &ast.RangeStmt{
		Key:   ast.NewIdent("_"),
		Value: ast.NewIdent(kName),
		Tok:   token.DEFINE,
		X: &ast.CallExpr{
			Fun:  &ast.SelectorExpr{X: ast.NewIdent("simrt"), Sel: ast.NewIdent("MapKeys")},
			Args: []ast.Expr{intLit(id), ast.NewIdent(mName)},
		},
		Body: body,
	}
	var loopStmt ast.Stmt = loop
	if label != nil {
		loopStmt = &ast.LabeledStmt{Label: label.Label, Stmt: loop}
	}
	return &ast.BlockStmt{List: []ast.Stmt{
		&ast.AssignStmt{Lhs: []ast.Expr{ast.NewIdent(mName)}, Tok: token.DEFINE, Rhs: []ast.Expr{rs.X}},
		loopStmt,
	}}
}
