#!/usr/bin/env python3
"""Regenerates /verif/MANIFEST.json from the table below (single source of truth)."""
import json, os, sys

NA = {
 "C01": "pure function of (route table, method, path): no schedule, clock, stream, fault or interleaving enters; deterministic simulation has nothing to search (DESIGN §5)",
 "C03": "parameter binding is a pure function of (declaration, request text); the multipart/urlencoded parsing it calls is net/http's (DESIGN §5)",
 "C05": "denco.Router.Lookup is a pure function of (pattern list, path); build order is an input list, not a schedule (DESIGN §5)",
 "C07": "Accept negotiation is a pure function of (header text, offers) (DESIGN §5)",
 "C08": "status/type/encoding of a response is a pure function of (description, Accept, handler outcome); write failures are not part of the statement (DESIGN §5)",
 "C18": "finite option lattice over a pure constructor; exhaustive enumeration settles it and is a different technique (DESIGN §5)",
 "C19": "set comparison of registrations against the description; pure (DESIGN §5)",
 "C20": "path matching and template rendering; pure (DESIGN §5)",
}

CHECKS = {
 "C16": dict(engine="K1", category="exploration", design="§4 C16",
   technique="deterministic simulation with stream fault injection: CSV codec over scripted readers/writers (chunking, faults at every offset) for every source × destination kind and option set, the WriterTo source's two goroutines + pipe under the synctest bubble scheduler with goroutine accounting; encoding/csv reference and kind-to-kind agreement",
   text="Each run draws an option set (separator, comment, lazy quotes, trimmed space, fields per record, skipped records, CRLF, record reuse), a CSV text biased to the awkward (quotes, embedded separators/newlines, empty fields and lines, ragged rows, malformed quoting), a source and destination kind with pre-state (fresh, shorter, equal, longer, typed-nil) and, for stream-typed kinds, chunking and one injected read or write error; the io.WriterTo source runs inside a synctest bubble where its two errgroup goroutines and the pipe are scheduled by the tape and must both have finished in every ending. Oracles: delivered records == encoding/csv parse of the input minus the skipped records (writer-typed destinations re-parsed), all kinds agree on the same input, malformed input gives the parser's error and never partial success, injected faults surface, no panic, no aliasing between delivered records, no goroutine left. The kind × option × pre-state product is sampled (said plainly); the simulation-proper part is stream and goroutine behaviour. thorough adds the sweep of every read-error and sink-error offset for canonical texts.",
   note="Skipped lines are read as skipped records (as the code and its tests do); text outputs are compared after a standard write and re-parse of the reference (encoding/csv does not round-trip every record); caller-supplied *csv.Reader/*csv.Writer objects are default-constructed in the main scenarios; separator, comment character and fields-per-record set on the caller's own objects are checked by a separate relation (they must act like the same options given to the codec)."),
 "C09": dict(engine="K2", category="exploration", design="§4 C09",
   technique="deterministic simulation: seeded exclusive scheduler with race-detector-invisible hand-off over statement-level yield points in the middleware (-race build); solo-equality + own-token oracles, reference memo model over generated accessor programs, admitted race reports",
   text="N=2..6 requests with unique tokens in every position are served by one middleware.Context, through the full APIHandler or through tape-generated accessor programs (RouteInfo / ContentType / ResponseFormat / Authorize / BindAndValidate / ResetAuth with repetition, threading the returned request). Exactly one request runs at a time; preemption happens at instrumented statement boundaries chosen by the tape (PCT-style change points) and at every collaborator call; hand-over uses raw pipe system calls the race detector cannot see, so any conflicting access pair ordered only by the simulator is reported, deterministically per tape. Oracles: each request's observation record equals its solo execution on an identically built handler and carries only its own tokens; a reference memo model (same request value and result on a repeated accessor, no second consultation of authenticators after a principal, no second consumption of the body, principal and scopes gone after ResetAuth); no race report with both stacks inside go-openapi/runtime. Seeded sampling of schedules and programs; not proof.",
   note="Dependency-internal map orders (produces/consumes lists, scheme order) are normalised per run so that the solo and the concurrent handler are identical; no fake clock under K2; evicted or stdlib-masked races can be missed; race violations are not minimised in-process (reports are de-duplicated per process) but replay in a fresh process."),
 "C15": dict(engine="SEQ", category="fault_enumeration", design="§4 C15",
   technique="deterministic simulation with stream fault injection: every built-in codec × source/destination kind over scripted readers/writers (chunking, zero-length reads, data+EOF, read/write error at every offset, close accounting) against byte-exact and round-trip oracles; sweep of every fault offset",
   text="A bytes.Buffer never short-reads or fails mid-stream. Each run puts one codec call (JSON, XML, YAML, text, byte stream; every supported source and destination kind; closing option on/off) over a scripted stream or sink whose chunking, zero-length reads, data-together-with-EOF and the single injected read or write error are drawn from the tape; oracles: byte-exactness for the text and byte-stream codecs under any chunking, consume(produce(v)) == v for the structured codecs over a conservative value domain, an injected error is returned and never becomes a shorter success, the stream is closed iff the option was requested (a closable source payload always), unsupported/nil/typed-nil destinations give an error and never a panic, no aliasing between two consecutive results. The thorough tier sweeps every read-error offset, write-error offset and zero-length-read position for each (codec, kind, content class).",
   note="Pre-populated destinations of the structured codecs are checked for no-panic only (the decoders merge by design); json.Number compared as a literal; three yaml.v3 dependency behaviours are recorded as known findings."),
 "C14": dict(engine="K1", category="exploration", design="§4 C14",
   technique="deterministic simulation of a two-party exchange: real client auth writers and real server authenticators joined by the in-process wire bridge in a synctest bubble; credential placements and compositions from the tape; token-in-body streamed in chunks",
   text="The client's auth writers and the server's authenticators are never joined by the unit tests. Each run registers one scheme through the real security.* constructor (plain or context-aware) around a recording callback, builds a secured operation with required scopes, and performs one client call through the wire bridge whose credentials come from a tape-drawn composition of the real client writers placed as operation auth, default auth, both, or default with a pre-set Authorization header, plus bearer tokens in query and in a streamed urlencoded/multipart form body. A model of the effective transmitted credential (last writer wins per header, bearer precedence header>query>form, default-auth rule) predicts the callback's arguments, applies/not-applies, the principal identity seen by authenticator result and authorizer, status and the basic-auth realm challenge. Mostly seeded input sampling through a two-party system (said plainly).",
   note="User names without ':'; tokens non-empty; header-borne strings without control characters or surrounding whitespace; urlencoded bodies under POST only."),
 "C04": dict(engine="K1", category="exploration", design="§4 C04",
   technique="deterministic simulation of a two-party exchange: real client transport and real server middleware built from one generated description, joined by an in-process wire bridge inside a synctest bubble with tape-driven body streaming and simulator-chosen map orders",
   text="Neither half's unit tests ever meet the other half. Here each run builds a server (untyped API + APIHandler) and a client call from the same tape-generated description and joins them by a bridge that uses net/http's real wire code (Request.Write → ReadRequest → handler → Response.Write → ReadResponse). Bodies are streamed: multipart writer goroutine → pipe → bridge pulls in tape-chosen chunks → server-side stream delivered to the binder in tape-chosen chunks; route build order, binder order, form/file order and path-substitution order are simulator-chosen permutations. Oracle: handler-received values == supplied values by declared type, and status/headers/decoded body at the response reader == what the handler returned. Mostly seeded input sampling through a two-party system (said plainly); the simulator makes the halves meet under streamed bodies and permuted orders.",
   note="No faults injected (C12 is the faulty twin). Generator restrictions (HTTP's own normalisations, collection-format limits, unambiguous templates) are listed in the evidence assumptions; two known findings are recorded (path value \":\", urlencoded form on DELETE)."),
 "C06": dict(engine="SEQ", category="exploration", design="§4 C06",
   technique="deterministic simulation with stream fault injection: body presence signalled through net/http's wire parser over scripted body streams, the same wire request replayed on both binding entry points; reference admission model",
   text="Whether a request carries a body is decided by reading the stream; the simulator builds each request from wire bytes (Content-Length n / 0 / chunked / neither, parsed by net/http) and puts a scripted stream under it (empty chunked body, zero-length reads before the first byte, first byte together with EOF, error before or after the first byte). The same wire request is given, on fresh streams, to Context.BindValidRequest and Context.BindAndValidate for tape-generated consumes lists (concrete, type/*, */*, parameterised, empty) × default media type × registered consumers × Content-Type spellings × methods; a reference model decides admission, 415/400, the consumer identity and agreement of the two entry points. The header-grammar half is seeded input sampling (said plainly); the body-presence half is stream fault injection.",
   note="Accept kept permissive; for an admitted type without a registered consumer only 'no other consumer decodes it' is judged; operations with no consumes entry and no default are not judged; parameters ignored on both sides of the comparison; whether an empty Content-Type value is 'absent' or 'unparsable' is left open."),
 "C02": dict(engine="SEQ", category="exploration", design="§4 C02",
   technique="deterministic simulation of evaluation order and collaborator outcomes: every consultation order of the schemes inside each alternative is enumerated per generated outcome vector by permuting RouteAuthenticator.Schemes; reference OR-of-ANDs model over the observed trace",
   text="The order in which the schemes of one alternative are consulted is a map-iteration order inside a dependency: fixed per process, random across processes, so unit tests see one order per run. Here each tape-generated (requirement structure, per-scheme outcome vector, authorizer behaviour, right-or-wrong rest of the request) is served once for every consultation order (all permutations, ≤36 combinations per run), through the full API handler and through the accessor sequence generated servers use; a reference model over the observed consultation trace decides admission, refusal status, principal/scopes/admitting alternative, and that neither the body stream nor a consumer nor the handler was touched on refusal. Seeded sampling of structures and vectors, enumeration of orders; not proof.",
   note="The model speaks only about schemes actually consulted (a short-circuited AND is never flagged); any satisfied alternative may admit; any consulted rejecting scheme's status is accepted."),
 "C13": dict(engine="K2", category="exploration", design="§4 C13",
   technique="deterministic simulation: seeded exclusive scheduler with race-detector-invisible hand-off (raw pipe syscalls) over statement-level yield points, -race build; solo-equality oracle + admitted race reports; sequential consumer-selection runs against a reference table",
   text="Part B (simulation target): 2..8 tasks call Submit on one fresh Runtime; exactly one task runs at a time and control is handed over by raw pipe system calls that the race detector does not see, so the detector reports every conflicting access pair that only the simulator's serialisation orders — deterministically for a tape. Preemption happens at instrumented statement boundaries (PCT-style change points from the tape) and at transport calls. Oracles: each caller's observation equals its solo execution (own token, own consumer), and no race report with both stacks inside go-openapi/runtime. Part A: sequential Submit calls over generated Content-Type spellings × registries × status/header sets × operation-level vs runtime-level client/context against a reference selection table (input sampling, said plainly). Seeded sampling of schedules, not proof.",
   note="No multipart bodies, stalls or timeouts under K2 (no fake clock there); a race already evicted from the detector's per-location history or masked by incidental stdlib synchronisation can be missed; race violations are not minimised in-process because the detector de-duplicates reports per process (replay in a fresh process reproduces them)."),
 "C10": dict(engine="SEQ", category="exploration", design="§4 C10",
   technique="deterministic simulation of map-iteration order: instrumented map ranges iterate in simulator-chosen order, all n! orders of the path-parameter map enumerated per generated input; reference URL model on the same runs",
   text="Go randomises the iteration order of the three maps buildHTTP walks; unit tests see one order per process. Here the instrumented ranges take their order from the simulator: for each tape-generated (base path, pattern, value map, query sets, scheme lists) CreateHttpRequest runs once per permutation of the path-parameter map (all n! for n≤4) and the URLs must be identical to one another and equal to a reference model (simultaneous PathEscape substitution into path.Join(base,pattern), trailing slash kept, query precedence caller>pattern>base, https when offered among several). The order clause is the simulation target; the reference-model clauses are seeded input sampling and are stated as such.",
   note="Static path text restricted to [a-z0-9._-]; trailing-slash clause not judged for the pattern \"/\"; one known finding (empty value in the leading segment under base path \"/\") is recorded in known_findings.json."),
 "C11": dict(engine="K1", category="exploration", design="§4 C11",
   technique="deterministic simulation: synctest bubble + tape-driven scheduler deciding the relative progress of multipart writer goroutine, caller (GetBody) and transport over scripted upload sources; received bytes parsed and compared part for part",
   text="One Submit per run in a synctest bubble; the tape draws the payload (every kind, several values/files per field, awkward names, contents around the 512-byte sniffing window, declared type or not), the chunking of every upload source (incl. first read shorter than the window, zero-length reads, data+EOF), how often the auth writer calls GetBody, the map-iteration order of fields and files, and the schedule of source reads vs transport pulls. The bytes the simulated transport received are parsed with mime/multipart / url.ParseQuery or compared with an independent producer call and must equal the supplied payload (multiset of parts: field name, base file name, full content, declared-or-sniffed part type); every GetBody result must equal the bytes sent. Seeded sampling, not proof.",
   note="Expected sniffed type = http.DetectContentType(first min(512,len) bytes); names without control characters; parts compared as a multiset; the network is a stub RoundTripper."),
 "C12": dict(engine="K1", category="fault_enumeration", design="§4 C12",
   technique="deterministic simulation with fault injection: synctest bubble (fake clock) + tape-driven scheduler over a simulated transport, upload sources and response body; single-fault placement sweep; goroutine/close accounting; tape minimisation + replay",
   text="One Runtime.Submit per run inside a synctest bubble whose every blocking point (upload-source reads, transport steps, response-body reads, closes) is a parked operation released one at a time by the seeded tape, which also moves the fake clock to just before/at/after the deadline and cancels the caller's context at a chosen step. Faults: source read error at any offset, params/auth/URL errors before sending, transport error before/while/after the body, response stall/reset, body reset/truncate/stall at any offset, close errors. Oracles after the run has settled: returned, not later than the effective deadline (exact on the fake clock), error unless complete, files closed, response body closed and drained when reuse is on, no goroutine with a go-openapi/runtime frame left. The thorough tier sweeps every single-fault placement for 9 canonical scenarios × reuse on/off. Sampling of schedules, enumeration of single-fault placements; not a proof.",
   note="The network is a stub RoundTripper (net/http's Client.Do is real, http.Transport is not in the loop); fake time never passes while request construction waits for an upload source or while a Close is parked; the simulated server consumes the whole request body before answering."),
 "C17": dict(engine="SEQ", category="fault_enumeration", design="§4 C17",
   technique="deterministic simulation: seeded HasBody/Read/io.Copy/Close histories over fault-injecting scripted streams, checked step by step against a reference stream model; tape minimisation + replay",
   text="Seeded search over histories (≤12 steps of HasBody / Read / io.Copy / Close) on scripted underlying streams with injected faults (error at any offset — sticky, or reported once and io.EOF afterwards —, zero-length reads, data+EOF, every chunking, nil body) × declared length positive/zero/absent, each step compared with an executable reference model; the thorough tier adds the systematic sweep of every error offset × probe position for 18 stream lengths around bufio's 4096-byte buffer. Sampling, not proof.",
   note="Trusts the reference model in sim/props/c17 (remaining bytes + terminal condition, sticky or reported once + closed flag) and the stated artefact rules (no wrapper when a positive length is declared; caller's own closes before the first probe)."),
}

def main():
    props = [json.loads(l)["id"] for l in open("/verif/properties.jsonl")]
    built = {d.upper() for d in os.listdir("/verif/sim/props")} if os.path.isdir("/verif/sim/props") else set()
    checks, na = [], []
    for pid in props:
        if pid in CHECKS and pid in built:
            c = CHECKS[pid]
            checks.append({
                "property_id": pid,
                "quick_cmd": f"bin/check {pid} quick",
                "thorough_cmd": f"bin/check {pid} thorough",
                "evidence_file": f"/verif/evidence/{pid}.json",
                "replay_cmd_template": f"bin/check {pid} --replay {{path}}",
                "engine": c["engine"],
                "level_claimed": {"category": c["category"], "text": c["text"], "design_ref": c["design"]},
                "level_note": c["note"],
                "technique": c["technique"],
            })
        elif pid in NA:
            na.append({"property_id": pid, "reason": "not applicable to deterministic simulation: " + NA[pid]})
        else:
            na.append({"property_id": pid, "reason": "not claimed yet: the simulation check designed in DESIGN §4 is not built at this commit"})
    m = {
        "version": 1,
        "setup_cmd": "bin/setup",
        "hooks": {
            "guard": "verif",
            "enable": "no hooks are committed to /repo: every check rsyncs /repo's working tree to a scratch directory under /var/tmp and instruments that copy with bin/siminstr (yield points, simulator-ordered map iteration, lock bookkeeping); the build tag 'verif' is reserved and unused",
            "baseline_off_cmd": "for m in $(cat /w/out/gomods.txt); do MF=$(cd /repo/$m && . /w/out/goenv.sh && gomodflag); (cd /repo/$m && go test $MF -json -vet=off -count=1 -timeout 25m ./...); done",
            "source_commits": [],
            "add_only": True,
        },
        "engines": [
            {"name": "SEQ", "path": "sim/kernel", "serves_properties": [p for p in props if CHECKS.get(p, {}).get("engine") == "SEQ" and p in built],
             "kind_free_text": "sequential deterministic driver: one goroutine, scripted streams/collaborators, every decision from one seeded tape; replay + delta-debugging minimisation"},
            {"name": "K1", "path": "sim/kernel/k1.go", "serves_properties": [p for p in props if CHECKS.get(p, {}).get("engine") == "K1" and p in built],
             "kind_free_text": "testing/synctest bubble scheduler: fake clock, every simulator-object operation parks, the root releases one parked operation per quiescence chosen by the tape, or jumps the clock"},
            {"name": "K2", "path": "sim/kernel/k2.go", "serves_properties": [p for p in props if CHECKS.get(p, {}).get("engine") == "K2" and p in built],
             "kind_free_text": "race-visible exclusive scheduler: tasks serialised by raw pipe hand-off that the race detector cannot see, preemption at instrumented yield points chosen by the tape, -race build"},
        ],
        "checks": checks,
        "not_applicable": na,
        "notes": "Technique family: deterministic simulation with fault injection. One integer (VERIF_SEED) decides every run; replay files under /verif/replays re-execute exactly. Exit 2 = infrastructure trouble (never a violation). See DESIGN.md.",
    }
    json.dump(m, open("/verif/MANIFEST.json", "w"), indent=1)
    print(f"MANIFEST.json: {len(checks)} checks, {len(na)} not claimed")

main()
