#!/usr/bin/env python3
"""mkresults.py — regenerate seeded/RESULTS.md from the meta.json files of the seeded changes."""
import json, os, re, glob
VERIF = os.path.dirname(os.path.dirname(os.path.realpath(__file__)))
rows = []
for d in glob.glob(os.path.join(VERIF, 'seeded', 'C??-*')):
    m = json.load(open(os.path.join(d, 'meta.json')))
    name = os.path.basename(d)
    pid, n = name.split('-')
    rows.append((pid, int(n), name, m))
rows.sort(key=lambda r: (r[0], r[1]))
def clip(s, n):
    s = re.sub(r'\s+', ' ', str(s or '')).replace('|', '/')
    return s[:n]
out = ["# Independently authored breaking changes", "",
 "Sub-agents saw only the property text (waves 2, 3 and 4 also the titles of earlier seeds; wave 3 was asked for changes that need a fault at a point, "
 "an overlap, a multi-step sequence or state surviving between calls; wave 4 for two cooperating edits or two independent conditions). "
 "Seeds <ID>-1..3 = wave 1, -4..6 = wave 2, -7..9 = wave 3, -10..12 = wave 4, -13..15 = wave 6 (changes that only show under a fault at a particular point, a once-only error, a sentinel error value, a cancellation or resource accounting; wave 5 was the neutral wave, see /verif/neutral), -16..18 = wave 7 (changes that show only behind a less-travelled part of the public API or an uncommon configuration), -19..21 = wave 9 (boundary bugs: an exact size, count, offset or limit; wave 8 was the second neutral wave), -22 = wave 10 (one more per property by authors who saw all 21 earlier titles), -23 = wave 11 (one more per property, authors shown the property text only and asked for less-travelled clauses and code paths), -24 = wave 12 (six properties, authors shown all 22 earlier titles and asked for something different in kind). 'first result' = quick tier of the property's own check as it was before the wave was looked at.", "",
 "| seed | change | needs | first result | reported by (now) |", "|---|---|---|---|---|"]
first = {}
for pid, n, name, m in rows:
    fr = str(m.get('first_result', '?')).split(' (')[0]
    wave = 12 if n >= 24 else 11 if n == 23 else {1: 1, 2: 2, 3: 3, 4: 4, 5: 6, 6: 7, 7: 9, 8: 10}[(n - 1) // 3 + 1]
    first.setdefault(wave, [0, 0])
    if fr in ('caught', 'missed', 'exit-2', 'not-reported'):
        first[wave][1] += 1
        if fr == 'caught':
            first[wave][0] += 1
    out.append(f"| {name} | {clip(m.get('title'), 80)} | {clip(m.get('needs'), 120)} | {fr} | {clip(m.get('caught_by', '—'), 40)}: {clip(m.get('violation_classes', '—'), 90)} |")
out.append("")
out.append("First passes: " + ", ".join(f"wave {w}: {c}/{t}" for w, (c, t) in sorted(first.items())) + ".")
open(os.path.join(VERIF, 'seeded', 'RESULTS.md'), 'w').write("\n".join(out) + "\n")
print(out[-1])
